/-
  Mathematics used by the pyvc contracts of /verif (DESIGN 2.5).  Only facts about the spec
  function `C` (binomial coefficient extended by 0 outside 0 ≤ k ≤ n) on ℤ × ℤ — no code.
  Every lemma name below is the `lean=` field of an entry in contracts/C06_int.py:LEMMAS, with
  the same statement.  No `sorry`, no extra axioms (checked by vf/lean.py on every run).
-/
import Mathlib

namespace PiquassoLemmas

/-- binomial coefficient on ℤ × ℤ, zero outside `0 ≤ k ≤ n` -/
def C (n k : ℤ) : ℤ := if 0 ≤ k ∧ k ≤ n then (Nat.choose n.toNat k.toNat : ℤ) else 0

theorem C_nat (n k : ℕ) : C (n : ℤ) (k : ℤ) = (Nat.choose n k : ℤ) := by
  unfold C
  by_cases h : k ≤ n
  · have : (0 : ℤ) ≤ k ∧ (k : ℤ) ≤ n := ⟨by positivity, by exact_mod_cast h⟩
    simp [this]
  · have h' : ¬ ((0 : ℤ) ≤ k ∧ (k : ℤ) ≤ n) := by
      intro hh; exact h (by exact_mod_cast hh.2)
    simp [h', Nat.choose_eq_zero_of_lt (Nat.lt_of_not_le h)]

theorem C_out (n k : ℤ) (h : n < 0 ∨ k < 0 ∨ n < k) : C n k = 0 := by
  unfold C
  have : ¬ (0 ≤ k ∧ k ≤ n) := by
    rintro ⟨h1, h2⟩
    rcases h with h | h | h <;> omega
  simp [this]

theorem C_zero (n : ℤ) (h : 0 ≤ n) : C n 0 = 1 := by
  obtain ⟨m, rfl⟩ := Int.eq_ofNat_of_zero_le h
  have := C_nat m 0
  simpa using this

theorem C_pos (n k : ℤ) (h : 0 ≤ k ∧ k ≤ n) : 1 ≤ C n k := by
  obtain ⟨kk, rfl⟩ := Int.eq_ofNat_of_zero_le h.1
  obtain ⟨nn, rfl⟩ := Int.eq_ofNat_of_zero_le (le_trans h.1 h.2)
  rw [C_nat]
  have hk : kk ≤ nn := by exact_mod_cast h.2
  have := Nat.choose_pos hk
  exact_mod_cast this

theorem symm (n k : ℤ) (h : 0 ≤ k ∧ k ≤ n) : C n k = C n (n - k) := by
  obtain ⟨kk, rfl⟩ := Int.eq_ofNat_of_zero_le h.1
  obtain ⟨nn, rfl⟩ := Int.eq_ofNat_of_zero_le (le_trans h.1 h.2)
  have hk : kk ≤ nn := by exact_mod_cast h.2
  have e : ((nn : ℤ) - (kk : ℤ)) = ((nn - kk : ℕ) : ℤ) := by omega
  rw [e, C_nat, C_nat, Nat.choose_symm hk]

theorem pascal (n k : ℤ) (h : 0 ≤ n ∧ 0 ≤ k) : C (n + 1) (k + 1) = C n k + C n (k + 1) := by
  obtain ⟨kk, rfl⟩ := Int.eq_ofNat_of_zero_le h.2
  obtain ⟨nn, rfl⟩ := Int.eq_ofNat_of_zero_le h.1
  have e1 : ((nn : ℤ) + 1) = ((nn + 1 : ℕ) : ℤ) := by push_cast; ring
  have e2 : ((kk : ℤ) + 1) = ((kk + 1 : ℕ) : ℤ) := by push_cast; ring
  rw [e1, e2, C_nat, C_nat, C_nat, Nat.choose_succ_succ]
  push_cast; ring

theorem absorb (n k : ℤ) (h : 0 ≤ n ∧ 0 ≤ k) : C n (k + 1) * (k + 1) = C n k * (n - k) := by
  obtain ⟨kk, rfl⟩ := Int.eq_ofNat_of_zero_le h.2
  obtain ⟨nn, rfl⟩ := Int.eq_ofNat_of_zero_le h.1
  have e2 : ((kk : ℤ) + 1) = ((kk + 1 : ℕ) : ℤ) := by push_cast; ring
  rw [e2, C_nat, C_nat]
  by_cases hk : kk ≤ nn
  · have := Nat.choose_succ_right_eq nn kk
    have e : ((nn : ℤ) - (kk : ℤ)) = ((nn - kk : ℕ) : ℤ) := by omega
    rw [e]
    exact_mod_cast this
  · have h1 : Nat.choose nn kk = 0 := Nat.choose_eq_zero_of_lt (Nat.lt_of_not_le hk)
    have h2 : Nat.choose nn (kk + 1) = 0 := Nat.choose_eq_zero_of_lt (by omega)
    simp [h1, h2]

/-- binomial coefficients increase on the left half of a row -/
theorem choose_mono_left_half (n : ℕ) (j k : ℕ) (hjk : j ≤ k) (hk : k ≤ n / 2) :
    Nat.choose n j ≤ Nat.choose n k := by
  induction k with
  | zero =>
    have : j = 0 := by omega
    subst this; exact le_refl _
  | succ m ih =>
    rcases Nat.eq_or_lt_of_le hjk with h | h
    · subst h; exact le_refl _
    · have hjm : j ≤ m := by omega
      have hlt : m < n / 2 := by omega
      exact le_trans (ih hjm (by omega)) (Nat.choose_le_succ_of_lt_half_left hlt)

theorem C_ge_n (n k : ℤ) (h : 1 ≤ k ∧ k ≤ n - 1) : n ≤ C n k := by
  obtain ⟨kk, rfl⟩ := Int.eq_ofNat_of_zero_le (by omega : (0 : ℤ) ≤ k)
  obtain ⟨nn, rfl⟩ := Int.eq_ofNat_of_zero_le (by omega : (0 : ℤ) ≤ n)
  rw [C_nat]
  have h1 : 1 ≤ kk := by exact_mod_cast h.1
  have h2 : kk + 1 ≤ nn := by
    have := h.2; omega
  -- choose n k ≥ choose n 1 = n for 1 ≤ k ≤ n - 1
  have key : nn ≤ Nat.choose nn kk := by
    rcases Nat.lt_or_ge kk (nn / 2 + 1) with hlt | hge
    · -- k ≤ n/2 : monotone on the left half
      have : Nat.choose nn 1 ≤ Nat.choose nn kk :=
        choose_mono_left_half nn 1 kk h1 (by omega)
      simpa using this
    · -- k > n/2 : use symmetry
      have hk : kk ≤ nn := by omega
      rw [← Nat.choose_symm hk]
      have : Nat.choose nn 1 ≤ Nat.choose nn (nn - kk) :=
        choose_mono_left_half nn 1 (nn - kk) (by omega) (by omega)
      simpa using this
  exact_mod_cast key

theorem mul_bound (a b m : ℤ) (h : 0 ≤ a ∧ a ≤ m ∧ 0 ≤ b ∧ b ≤ m) : a * b ≤ m * m := by
  obtain ⟨h1, h2, h3, h4⟩ := h
  exact mul_le_mul h2 h4 h3 (le_trans h1 h2)

theorem hockey_step (d n : ℤ) (h : 1 ≤ d ∧ 0 ≤ n) :
    C (d + n - 1) d + C (d + n - 1) n = C (d + n) d := by
  have h1 : C (d + n) d = C ((d + n - 1) + 1) ((d - 1) + 1) := by ring_nf
  rw [h1, pascal (d + n - 1) (d - 1) ⟨by omega, by omega⟩]
  have e : d - 1 + 1 = d := by ring
  rw [e]
  have s : C (d + n - 1) (d - 1) = C (d + n - 1) n := by
    rw [symm (d + n - 1) (d - 1) ⟨by omega, by omega⟩]
    congr 1; ring
  rw [s]; ring

/-- `C(n,j)·j ≤ C(n,k)·k` for `0 ≤ j ≤ k ≤ n/2` (the intermediates of `comb` grow) -/
theorem mono_mul (n j k : ℤ) (h : 0 ≤ j ∧ j ≤ k ∧ 2 * k ≤ n) : C n j * j ≤ C n k * k := by
  obtain ⟨h0, hjk, hkn⟩ := h
  obtain ⟨jj, rfl⟩ := Int.eq_ofNat_of_zero_le h0
  obtain ⟨kk, rfl⟩ := Int.eq_ofNat_of_zero_le (le_trans h0 hjk)
  obtain ⟨nn, rfl⟩ := Int.eq_ofNat_of_zero_le (by omega : (0 : ℤ) ≤ n)
  rw [C_nat, C_nat]
  have hjk' : jj ≤ kk := by exact_mod_cast hjk
  have hkn' : 2 * kk ≤ nn := by exact_mod_cast hkn
  have hc : Nat.choose nn jj ≤ Nat.choose nn kk :=
    choose_mono_left_half nn jj kk hjk' (by omega)
  have : Nat.choose nn jj * jj ≤ Nat.choose nn kk * kk := Nat.mul_le_mul hc hjk'
  exact_mod_cast this

end PiquassoLemmas

namespace PiquassoLemmas

/-- row absorption: `C(N+1, i) · i = C(N, i-1) · (N+1)` (step of `binomialCoeff<int>` in src/utils.hpp) -/
theorem absorb_row (N i : ℤ) (h : 0 ≤ N ∧ 1 ≤ i) : C (N + 1) i * i = C N (i - 1) * (N + 1) := by
  obtain ⟨NN, rfl⟩ := Int.eq_ofNat_of_zero_le h.1
  obtain ⟨ii, hi⟩ : ∃ ii : ℕ, i = (ii : ℤ) + 1 := ⟨(i - 1).toNat, by omega⟩
  subst hi
  have e1 : ((NN : ℤ) + 1) = ((NN + 1 : ℕ) : ℤ) := by push_cast; ring
  have e2 : ((ii : ℤ) + 1) = ((ii + 1 : ℕ) : ℤ) := by push_cast; ring
  have e3 : ((ii : ℤ) + 1 - 1) = (ii : ℤ) := by ring
  rw [e3, e1, e2, C_nat, C_nat]
  have := Nat.add_one_mul_choose_eq NN ii
  have h2 : ((NN + 1 : ℕ) : ℤ) * (Nat.choose NN ii : ℤ) = (Nat.choose (NN + 1) (ii + 1) : ℤ) * ((ii + 1 : ℕ) : ℤ) := by
    exact_mod_cast this
  rw [← h2]; ring

theorem choose_diag_mono (m r j : ℕ) : Nat.choose m r ≤ Nat.choose (m + j) (r + j) := by
  induction j with
  | zero => simp
  | succ j ih =>
    have step : Nat.choose (m + j) (r + j) ≤ Nat.choose (m + j + 1) (r + j + 1) := by
      rw [Nat.choose_succ_succ]; exact Nat.le_add_right _ _
    exact le_trans ih step

/-- the intermediates of `binomialCoeff` stay below the final value -/
theorem C_mono_diag (n k i : ℤ) (h : 0 ≤ i ∧ i ≤ k ∧ k ≤ n) : C (n - k + i) i ≤ C n k := by
  obtain ⟨h0, hik, hkn⟩ := h
  obtain ⟨ii, rfl⟩ := Int.eq_ofNat_of_zero_le h0
  obtain ⟨kk, rfl⟩ := Int.eq_ofNat_of_zero_le (le_trans h0 hik)
  obtain ⟨nn, rfl⟩ := Int.eq_ofNat_of_zero_le (le_trans (le_trans h0 hik) hkn)
  have hik' : ii ≤ kk := by exact_mod_cast hik
  have hkn' : kk ≤ nn := by exact_mod_cast hkn
  have e : ((nn : ℤ) - (kk : ℤ) + (ii : ℤ)) = ((nn - kk + ii : ℕ) : ℤ) := by omega
  rw [e, C_nat, C_nat]
  have key := choose_diag_mono (nn - kk + ii) ii (kk - ii)
  have e1 : nn - kk + ii + (kk - ii) = nn := by omega
  have e2 : ii + (kk - ii) = kk := by omega
  rw [e1, e2] at key
  exact_mod_cast key

theorem div_exact (a b c : ℤ) (h : 0 < b ∧ a = b * c) : a / b = c := by
  obtain ⟨hb, rfl⟩ := h
  exact Int.mul_ediv_cancel_left c (ne_of_gt hb)

open scoped ComplexOrder in
/-- congruence preserves positive semidefiniteness: used for the uncertainty relation
    `σ + iħΩ ≥ 0 ⇒ S(σ + iħΩ)Sᴴ ≥ 0` (C08) -/
theorem psd_congr {n : Type*} [Fintype n] [DecidableEq n] (M S : Matrix n n ℂ) (h : M.PosSemidef) :
    (S * M * S.conjTranspose).PosSemidef :=
  h.mul_mul_conjTranspose_same S

end PiquassoLemmas

namespace PiquassoLemmas

theorem C_le_middle (n k : ℤ) (h : 0 ≤ n) : C n k ≤ C n (n / 2) := by
  obtain ⟨nn, rfl⟩ := Int.eq_ofNat_of_zero_le h
  have hmid : ((nn : ℤ) / 2) = ((nn / 2 : ℕ) : ℤ) := by omega
  by_cases hk : 0 ≤ k ∧ k ≤ (nn : ℤ)
  · obtain ⟨kk, rfl⟩ := Int.eq_ofNat_of_zero_le hk.1
    rw [hmid, C_nat, C_nat]
    exact_mod_cast Nat.choose_le_middle kk nn
  · have h0 : C (nn : ℤ) k = 0 := by
      apply C_out
      rcases not_and_or.mp hk with h1 | h1
      · right; left; omega
      · right; right; omega
    rw [h0, hmid, C_nat]
    positivity

theorem mul_le (a b x y : ℤ) (h : 0 ≤ a ∧ a ≤ x ∧ 0 ≤ b ∧ b ≤ y) : a * b ≤ x * y := by
  obtain ⟨h1, h2, h3, h4⟩ := h
  exact mul_le_mul h2 h4 h3 (le_trans h1 h2)

theorem le_of_mul_le (a b m : ℤ) (h : 1 ≤ a ∧ 0 ≤ b ∧ a * b ≤ m) : b ≤ m := by
  obtain ⟨h1, h2, h3⟩ := h
  nlinarith

theorem mul_cancel (a b c : ℤ) (h : 0 < c ∧ a * c = b * c) : a = b := by
  obtain ⟨hc, he⟩ := h
  exact mul_right_cancel₀ (ne_of_gt hc) he

end PiquassoLemmas

namespace PiquassoLemmas

theorem mul_eq (a b c : ℤ) (h : a = b) : a * c = b * c := by rw [h]

theorem C_nonneg (n k : ℤ) : 0 ≤ C n k := by
  unfold C
  split_ifs
  · exact Int.natCast_nonneg _
  · exact le_refl 0

end PiquassoLemmas
