#!/venv/bin/python
"""Run the pinned test-suite on a tree (default /repo) and compare with BASELINE.json stable_pass.

usage: run_baseline.py [repo_dir] [-n WORKERS]   -> exit 0 iff every stable_pass test passes.
"""
import json, os, subprocess, sys, tempfile, xml.etree.ElementTree as ET

repo = sys.argv[1] if len(sys.argv) > 1 and not sys.argv[1].startswith("-") else "/repo"
base = json.load(open("/root/.vp/BASELINE.json"))
stable = set(base["stable_pass"])
out = tempfile.mktemp(suffix=".junit.xml")
env = dict(os.environ)
env.pop("PIQUASSO_VERIF", None)
cmd = ["/venv/bin/python", "-m", "pytest", "-ra", "-q", "-p", "no:cacheprovider", "--timeout=900",
       "--continue-on-collection-errors", f"--junitxml={out}"] + (["-n", os.environ["SUITE_N"]] if os.environ.get("SUITE_N") else [])
p = subprocess.run(cmd, cwd=repo, env=env, capture_output=True, text=True)
passed = set()
for tc in ET.parse(out).getroot().iter("testcase"):
    if not any(ch.tag in ("failure", "error", "skipped") for ch in tc):
        passed.add(f"{tc.get('classname')}::{tc.get('name')}")
os.unlink(out)
missing = sorted(stable - passed)
print(f"stable_pass={len(stable)} passed_now={len(passed)} missing={len(missing)}")
for m in missing[:40]:
    print("  NOT PASSING:", m)
print(p.stdout.strip().splitlines()[-1] if p.stdout.strip() else p.stderr[-500:])
if missing and "--recheck" in sys.argv:
    # tests that only missed because the machine was overloaded (per-test timeout): run them again, alone, same timeout
    ids = []
    for m in missing:
        mod, name = m.split("::", 1)
        ids.append(mod.replace(".", "/") + ".py::" + name)
    out2 = tempfile.mktemp(suffix=".junit.xml")
    subprocess.run(["/venv/bin/python", "-m", "pytest", "-q", "-p", "no:cacheprovider", "--timeout=900", f"--junitxml={out2}", "-n", "2"] + ids,
                   cwd=repo, env=env, capture_output=True, text=True)
    again = set()
    for tc in ET.parse(out2).getroot().iter("testcase"):
        if not any(ch.tag in ("failure", "error", "skipped") for ch in tc):
            again.add(f"{tc.get('classname')}::{tc.get('name')}")
    os.unlink(out2)
    still = sorted(set(missing) - again)
    print(f"recheck of {len(missing)} missing test(s) alone: {len(missing) - len(still)} pass, still missing: {still}")
    missing = still
sys.exit(1 if missing else 0)
