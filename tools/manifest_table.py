SETUP_CMD = "true"
ENGINES = [
 {"name": "symtrace", "path": "vf/symtrace.py", "serves_properties": ["C07"],
  "kind_free_text": "runs the real numeric functions on exact symbolic values (Laurent polynomials over Q(i) modulo trig/hyperbolic relations) through piquasso's own connector seam; obligation = polynomial identity decided by a complete normal form"},
]
CHECKS["C07"] = dict(
 engine="symtrace", category="proof", design_ref="DESIGN.md 5/C07, 2.3",
 technique="contract post-conditions as polynomial identities over the real functions, decided by exact normal form modulo the trig/hyperbolic relation ideal",
 text="Every built-in linear gate block is symplectic/unitary for ALL real parameters; the documented identities hold; the Gaussian update of (xxpp mean, covariance) by a generic block on every ordered mode tuple equals the congruence by the embedded symplectic (explicit defect term that vanishes for symplectic blocks), for ALL states, ALL hbar>0; displacements shift means by sqrt(2 hbar)(Re a, Im a). Exact for all parameter values at each enumerated shape (d<=3 quick, d<=5 thorough).",
 note="floats treated as reals (constants k*pi/4, sqrt2 recognised by bit pattern); shapes enumerated, not symbolic in d; numpy executes indexing/matmul on object arrays; vf/sympoly.py normal form trusted; 'all sequences' by induction over per-step obligations (not mechanised)",
)
ENGINES[0]["serves_properties"] = ["C07", "C14"]
ENGINES.append({"name": "rtc", "path": "contracts/*_bounded.py", "serves_properties": ["C14"],
  "kind_free_text": "run-time evaluation of sidecar contracts on the real functions over an enumerated/seeded bounded domain; reported under coverage.bounded, never counted as proved"})
CHECKS["C14"] = dict(
 engine="symtrace + rtc", category="proof", design_ref="DESIGN.md 5/C14, 2.3",
 technique="contract post-conditions as polynomial identities over the real getters/setters (exact normal form); uninterpreted sqrt/det atoms for hbar-independence; bounded run-time contracts for inverse/eigenvalue-based observables",
 text="For all (m,C,G) under the representation invariant, all hbar>0, all angles, every ordered mode tuple at d<=3 (quick) / d<=4 (thorough): the xpxp/xxpp/complex/ladder representations agree with their definitions, setters and getters are mutually inverse, reduction and rotation commute with them, means scale with sqrt(hbar) and covariances with hbar, and purity / photon number / the arguments handed to the hbar-free click-probability and density-matrix kernels are identical polynomials at hbar and at hbar=1. Fidelity, parity, phase-shifter expectation (matrix inverse / eigenvalues) only by the bounded stand-in.",
 note="floats as reals; shapes enumerated; displaced branch at a generic point; kernels receiving hbar-free arrays assumed to have no other access to hbar (they take no config); bounded part: 6/40 random states x 4 hbar values, tol 1e-7",
)
SETUP_CMD = "/venv/bin/python -m vf.lean"
ENGINES += [
 {"name": "pyvc", "path": "vf/pyvc.py", "serves_properties": ["C06", "C14"],
  "kind_free_text": "Python AST -> verification conditions: forward symbolic execution of the real function body (re-parsed on every run) against a sidecar contract; loops cut by invariants, calls by callee contracts, machine-range/bounds/division obligations; SMT-LIB to z3 5.1 / z3 4.8 / cvc5; lemma instances only through explicit ghost `use`"},
 {"name": "frames", "path": "vf/frames.py + vf/cfg.py", "serves_properties": ["C11", "C12", "C20"],
  "kind_free_text": "modifies-/reads-clauses decided on the AST: per-function strongest modifies clause by flow-sensitive provenance analysis with summaries to fixpoint; `restores` obligations as post-dominance on an exception-augmented CFG; process-global RNG reads by call-graph reachability"},
 {"name": "lean-lemmas", "path": "lemmas/PiquassoLemmas.lean", "serves_properties": ["C06"],
  "kind_free_text": "Lean 4 + Mathlib proofs of the binomial identities used as lemma instances by pyvc (absorb, pascal, symm, monotonicity, hockey step)"},
]
ENGINES[1]["serves_properties"] = ["C06", "C11", "C12", "C14", "C20"]
CHECKS["C06"] = dict(
 engine="pyvc + lean-lemmas + rtc", category="proof", design_ref="DESIGN.md 5/C06, 2.1, 2.5",
 technique="pre/post-conditions and loop invariants on the real njit functions, VCs generated from the AST and discharged by z3/cvc5 with Lean-proved binomial lemmas; exhaustive bounded cross-check of engine and spec functions",
 text="For ALL arguments in the stated 32-bit range: comb = C(n,k) with every intermediate inside int64; get_index_in_fock_space / _subspace = the combinatorial-number-system rank RK (spec function) with bounds, division and int64 obligations; cutoff_fock_space_dim and symmetric_subspace_cardinality equal their binomial formulas; the xxpp/xpxp index arrays are mutually inverse permutations for every d. The enumeration itself (partitions successor, rank-step lemma, bijection) is covered exhaustively only inside d<=7, cutoff<=9 (bosonic), d<=10 (fermionic) by the bounded cross-check.",
 note="numba == Python up to integer width (width discharged by range obligations); S and RK defined by unfold equations; Lean statements transcribed by hand from the lemma table; partitions / nb_get_fock_space_basis / fermionic successor not yet under contract (bounded only)",
)
CHECKS["C11"] = dict(
 engine="frames + rtc", category="proof", design_ref="DESIGN.md 5/C11, 2.2",
 technique="reads-clauses by call-graph reachability on the real AST, relational seed-schedule contract (dask = sequential), closure analysis of per-shot callbacks; bounded reproducibility runs",
 text="No function reachable from any simulation step reads or writes process-global random state (3 known findings where the tree violates this); the dask and sequential branches of both per-shot samplers call the same function on seed+idx for idx in range(shots) and collect positionally; callbacks handed to per-shot samplers draw from no captured generator; Config.copy shares rng without reseeding; Result.samples shuffles with a local Random. Same-seed reproducibility with interleaved Config creation and dask on/off only by the bounded stand-in; native job tiling (cppvc) not yet built.",
 note="name-based call resolution (over-approximating); dask.compute positional; numpy Generator methods depend on generator state only; thread-count independence of numba prange reductions and of the native kernels is not covered by a contract in this version",
)
CHECKS["C12"] = dict(
 engine="frames + rtc", category="proof", design_ref="DESIGN.md 5/C12, 2.2",
 technique="modifies-clauses (inferred strongest write sets vs declared frames) on every exit path; restores-obligations as post-dominance on the exception-augmented CFG; fault injection at every line as replay/bounded stand-in",
 text="For every path, normal or exceptional: the temporaries written on caller-owned instructions (modes, resolved params) are restored (post-dominance proof on the exception-augmented CFG); execute/validate/copy/export/from_dict write nothing else reachable from program, instructions, initial_state, config; none of the ~100 simulation steps writes through its instruction argument; no lru_cache'd array is written; constructors copy the caller's Config. Two genuine defects found by these obligations were fixed in /repo (f0e2cc9, ff76139); one known finding (Config reseeds global random on export/repr).",
 note="provenance analysis is over-approximating and name-based; three declared fresh/constructor call results are assumptions; deepcopy assumed to share nothing; native pybind wrappers' write sets (pfaffian mutates its input) not yet under contract",
)
CHECKS["C20"] = dict(
 engine="symtrace (symbolic operands) + frames", category="proof", design_ref="DESIGN.md 5/C20",
 technique="operator tables and whitelist against the specification tables; per-node accept predicate decided exhaustively over all ast node classes; post-condition `Expression(src)(x) == CPython(src)(x)` checked as symbolic-trace equality for all operand values and all truth assignments per expression template",
 text="The whitelist and operator tables equal the specification; _validate visits every node and accepts a node iff whitelisted (exhaustive over node classes, constant types, names); construction evaluates nothing; for every template of the grammar (376+ templates, leaves symbolic) and every truth assignment the real evaluator returns the same symbolic term and evaluates the same set of operator applications as CPython - same operator, operands, order and short-circuits for ALL outcome values.",
 note="templates enumerated to a depth bound (the property's quantifier is bounded in depth); CPython is the reference semantics; comparison results identified with booleans; nested-comparison operands and hostile corpus only by bounded stand-ins",
)
ENGINES[2]["serves_properties"] = ["C03", "C06", "C14"]
ENGINES[3]["serves_properties"] = ["C03", "C11", "C12", "C20"]
ENGINES[1]["serves_properties"] = ["C03", "C06", "C11", "C12", "C14", "C20"]
CHECKS["C03"] = dict(
 engine="pyvc (statement-level) + frames + rtc", category="proof", design_ref="DESIGN.md 5/C03",
 technique="statement-level Hoare triples generated from the real AST (exact Fraction arithmetic as SMT reals), structural contracts on the branch loop, run-time contract BT wrapped around the real branch update as bounded stand-in",
 text="For ALL shots N>=1 and all frequencies k/N: the real statements `current_shots = int(branch.frequency*shots)`, `subbranch.frequency *= branch.frequency`, and the multiplicity expressions of Result.samples/get_counts establish their exact-arithmetic post-conditions (discharged by z3); the branch loop has the contracted structure (outcome concatenation, unchanged branch when the condition is false, all and only the step's branches added, start from one branch of frequency 1, step frequencies built as Fraction(k, shots)). The lifting to the branch-tree invariant (sum = 1, k/N, N samples) is a stated induction, and is additionally evaluated as a run-time contract on adaptive programs; the shots=None sentences are bounded only (one known finding on the passive simulator, one defect fixed: get_counts).",
 note="induction over branches/instructions not mechanised; STEP contract of each measurement step checked structurally and at run time, not proved; floats for shots=None",
)
ENGINES[0]["serves_properties"] = ["C07", "C08", "C14", "C16", "C20"]
ENGINES[1]["serves_properties"] = ["C03", "C06", "C08", "C11", "C12", "C13", "C14", "C16", "C20"]
ENGINES[2]["serves_properties"] = ["C03", "C06", "C13", "C14"]
ENGINES[3]["serves_properties"] = ["C03", "C11", "C12", "C13", "C20"]
ENGINES[4]["serves_properties"] = ["C06", "C08"]
CHECKS["C08"] = dict(
 engine="symtrace + lean-lemmas + rtc", category="proof", design_ref="DESIGN.md 5/C08",
 technique="representation invariant and symplectic-form preservation as polynomial identities over the real Gaussian steps; Lean lemma for PSD congruence; validate()/norm/probability contracts at run time on every step as bounded stand-in",
 text="For ALL parameters, states and hbar, every built-in linear gate step keeps C Hermitian, G symmetric and the xxpp covariance real symmetric (every ordered mode tuple at d=3), its xxpp matrix preserves the symplectic form, displacement leaves C and G, vacuum is hbar*I; with C07 (update = congruence) and the Lean lemma psd_congr the uncertainty relation is preserved by every built-in linear gate for all parameters. Fock/fermionic states, channels, measurements, purity/probability ranges: run-time contracts after every step on enumerated programs only.",
 note="composition (C07 congruence + symplectic form + psd_congr + vacuum base => uncertainty relation for all programs) is a stated argument; floats as reals; bounded part covers Gaussian/pure Fock/general Fock, hbar in {0.5,2}(quick), cutoffs {3,5}",
)
CHECKS["C13"] = dict(
 engine="pyvc (guard equivalence) + frames/cfg + rtc", category="proof", design_ref="DESIGN.md 5/C13",
 technique="raise-guards extracted from the real AST proved equivalent to the rule of the statement by SMT; dominance of validation over evolution on the CFG; raise-type scan; single-fault mutations and acceptance runs as bounded stand-in",
 text="Each structural rule (mode range, arity, repeated modes in Q and in the simulator's own validation, preparation order, mid-circuit measurement support, shots, shots=None support, initial-state type/d) has its raising guard proved equivalent to the rule for all integer/boolean values; on every path through execute_instructions the shots check, d inference and _validate_instructions dominate _do_execute_instructions, and every check visits all instructions; every raise before evolution is a PiquassoException subclass. One defect fixed (repeated modes bypassing Q), five known findings (ValueError x2, lazy parameter validation, cutoff <= 2 refused x2). Acceptance half bounded only.",
 note="isinstance/any/_is_distinct are atoms of the guard equivalences; the acceptance half (valid programs never refused for every cutoff and branch) is total correctness of numeric code - bounded stand-in only",
)
CHECKS["C16"] = dict(
 engine="symtrace + rtc", category="proof", design_ref="DESIGN.md 5/C16",
 technique="relabelling equivariance and disjoint-gate commutation as polynomial identities over the real Gaussian and passive step functions (symbolic states/blocks/hbar); exhaustive bounded check of the mode bookkeeping helpers and numeric Fock relabelling",
 text="For ALL states, blocks (also non-symplectic) and hbar: applying a block on pi(M) to the relabelled Gaussian state equals relabelling the result, for every permutation pi and ordered tuple M (d<=3 quick, d<=4 thorough), and two blocks on disjoint ordered tuples commute; the same for the passive simulator's interferometer accumulation. _remap_modes/_remap_modes_inverse/_delete_modes_from_active and the Fock simulators only by bounded stand-ins.",
 note="shapes enumerated, arity <= 2; Fock index lists not under contract; outcome-tuple relabelling relies on C03's structural contracts",
)
ENGINES[0]["serves_properties"] = ["C07", "C08", "C14", "C16", "C18", "C20"]
ENGINES[1]["serves_properties"] = ["C03", "C06", "C08", "C11", "C12", "C13", "C14", "C16", "C18", "C20"]
ENGINES[3]["serves_properties"] = ["C03", "C11", "C12", "C13", "C18", "C20"]
CHECKS["C18"] = dict(
 engine="symtrace (symbolic coefficients) + frames + rtc", category="proof", design_ref="DESIGN.md 5/C18",
 technique="post-condition den(result) = linear combination, checked by exact symbolic field arithmetic on the real operator methods for every expression-tree shape; positional-parameter contracts read from class ASTs; frames obligation for nesting; bounded text-level round trips",
 text="For ALL (non-zero) coefficient values and every expression tree over +, scalar *, / with up to 4 (quick) / 5 (thorough) leaves, the real NumberState/FockStateVector operator methods produce a preparation whose amplitude map equals the linear combination denoted by the tree; for every class exportable to Blackbird the params dict order equals the constructor signature, the name maps are mutually inverse and modes pass through; registering a program inside another writes nothing reachable from the inner program and maps modes through the register. Text-level round trips (blackbird, exec(as_code), from_dict, copy) and nested register mappings are bounded stand-ins. Two defects found and fixed in /repo.",
 note="tree shapes enumerated; blackbird serializer and exec are external; deepcopy assumed structural",
)
ENGINES[1]["serves_properties"] = ["C03", "C06", "C08", "C11", "C12", "C13", "C14", "C15", "C16", "C18", "C20"]
CHECKS["C15"] = dict(
 engine="rtc", category="exploration", design_ref="DESIGN.md 5/C15",
 technique="bounded only: the per-function post-conditions of the property as run-time contracts on random and structured/degenerate inputs (no deductive obligation is possible for LAPACK-based float code)",
 text="Bounded stand-in only, never counted as proved: takagi (U unitary, s >= 0, U diag(s) U^T = A), williamson (S real symplectic, D positive diagonal paired per mode, S D S^T = M), euler (Bloch-Messiah factors recompose P and A), clements -> inverse_clements / weights round trip / instruction list, Graph mean photon number - on Haar-random and degenerate inputs (identity, permutations, block-diagonal, repeated and zero singular/symplectic values, d = 1).",
 note="exploration level: dimension <= 4 quick / 6 thorough, tolerance 1e-8; nothing proved",
)
SETUP_CMD = "/venv/bin/python -m vf.lean && /venv/bin/python -m vf.native"
ENGINES.append({"name": "cppvc", "path": "vf/cppvc.py + vf/cppframes.py + native/shim.cpp", "serves_properties": ["C04", "C11", "C12"],
  "kind_free_text": "clang-14 JSON AST of the real C++ sources (template instantiations included) -> Python AST of the integer skeleton -> pyvc verification conditions (bit-precise by obligation: signed overflow, unsigned wrap, narrowing casts, bounds, division); write sets of kernels from the clang AST; replays compile /repo/src with a ctypes shim"})
CHECKS["C04"] = dict(
 engine="cppvc + pyvc + lean-lemmas + rtc", category="proof", design_ref="DESIGN.md 5/C04, 2.4",
 technique="contracts (pre/post, loop invariants, ghost product lemmas) on the integer skeleton extracted mechanically from the clang AST of the real kernels, discharged by z3/cvc5 with Lean-proved binomial lemmas; exhaustive coverage of the exactness pre-condition over the property's multiplicity range; bounded accuracy against defining sums",
 text="binomialCoeff<int>/<int64_t> = C(n,k) without overflow; for permanent_cpp<double> (row-splitting prefix and kernel, sliced mechanically): all 800+ obligations - every subscript (also inside dropped floating statements) in bounds, no division by zero, no signed overflow, no unsigned wrap, binomial weight equal to prod C(row_i, gray_i) at every addend, job ranges tiling [0, idx_max) for every hardware_concurrency() value - hold under an exactness pre-condition that is shown (exhaustively) to hold on the whole multiplicity range of the property. The Gray counter's contract is assumed (bounded-checked on the real class); floating accuracy of all kernels vs their defining sums is a bounded stand-in. Three native defects found and fixed (int overflow, 0 threads, pfaffian mutating its input).",
 note="floats dropped from the skeleton; Gray-counter contract assumed; permanent_laplace_cpp and float instantiations not verified separately; Glynn/BBFG formula trusted mathematics; no UB claim for the floating kernels",
)
