SETUP_CMD = "true"
ENGINES = [
 {"name": "symtrace", "path": "vf/symtrace.py", "serves_properties": ["C07"],
  "kind_free_text": "runs the real numeric functions on exact symbolic values (Laurent polynomials over Q(i) modulo trig/hyperbolic relations) through piquasso's own connector seam; obligation = polynomial identity decided by a complete normal form"},
]
CHECKS["C07"] = dict(
 engine="symtrace", category="proof", design_ref="DESIGN.md 5/C07, 2.3",
 technique="contract post-conditions as polynomial identities over the real functions, decided by exact normal form modulo the trig/hyperbolic relation ideal",
 text="Every built-in linear gate block is symplectic/unitary for ALL real parameters; the documented identities hold; the Gaussian update of (xxpp mean, covariance) by a generic block on every ordered mode tuple equals the congruence by the embedded symplectic (explicit defect term that vanishes for symplectic blocks), for ALL states, ALL hbar>0; displacements shift means by sqrt(2 hbar)(Re a, Im a). Exact for all parameter values at each enumerated shape (d<=3 quick, d<=5 thorough).",
 note="floats treated as reals (constants k*pi/4, sqrt2 recognised by bit pattern); shapes enumerated, not symbolic in d; numpy executes indexing/matmul on object arrays; vf/sympoly.py normal form trusted; 'all sequences' by induction over per-step obligations (not mechanised)",
)
