SETUP_CMD = "true"
ENGINES = [
 {"name": "symtrace", "path": "vf/symtrace.py", "serves_properties": ["C07"],
  "kind_free_text": "runs the real numeric functions on exact symbolic values (Laurent polynomials over Q(i) modulo trig/hyperbolic relations) through piquasso's own connector seam; obligation = polynomial identity decided by a complete normal form"},
]
CHECKS["C07"] = dict(
 engine="symtrace", category="proof", design_ref="DESIGN.md 5/C07, 2.3",
 technique="contract post-conditions as polynomial identities over the real functions, decided by exact normal form modulo the trig/hyperbolic relation ideal",
 text="Every built-in linear gate block is symplectic/unitary for ALL real parameters; the documented identities hold; the Gaussian update of (xxpp mean, covariance) by a generic block on every ordered mode tuple equals the congruence by the embedded symplectic (explicit defect term that vanishes for symplectic blocks), for ALL states, ALL hbar>0; displacements shift means by sqrt(2 hbar)(Re a, Im a). Exact for all parameter values at each enumerated shape (d<=3 quick, d<=5 thorough).",
 note="floats treated as reals (constants k*pi/4, sqrt2 recognised by bit pattern); shapes enumerated, not symbolic in d; numpy executes indexing/matmul on object arrays; vf/sympoly.py normal form trusted; 'all sequences' by induction over per-step obligations (not mechanised)",
)
ENGINES[0]["serves_properties"] = ["C07", "C14"]
ENGINES.append({"name": "rtc", "path": "contracts/*_bounded.py", "serves_properties": ["C14"],
  "kind_free_text": "run-time evaluation of sidecar contracts on the real functions over an enumerated/seeded bounded domain; reported under coverage.bounded, never counted as proved"})
CHECKS["C14"] = dict(
 engine="symtrace + rtc", category="proof", design_ref="DESIGN.md 5/C14, 2.3",
 technique="contract post-conditions as polynomial identities over the real getters/setters (exact normal form); uninterpreted sqrt/det atoms for hbar-independence; bounded run-time contracts for inverse/eigenvalue-based observables",
 text="For all (m,C,G) under the representation invariant, all hbar>0, all angles, every ordered mode tuple at d<=3 (quick) / d<=4 (thorough): the xpxp/xxpp/complex/ladder representations agree with their definitions, setters and getters are mutually inverse, reduction and rotation commute with them, means scale with sqrt(hbar) and covariances with hbar, and purity / photon number / the arguments handed to the hbar-free click-probability and density-matrix kernels are identical polynomials at hbar and at hbar=1. Fidelity, parity, phase-shifter expectation (matrix inverse / eigenvalues) only by the bounded stand-in.",
 note="floats as reals; shapes enumerated; displaced branch at a generic point; kernels receiving hbar-free arrays assumed to have no other access to hbar (they take no config); bounded part: 6/40 random states x 4 hbar values, tol 1e-7",
)
