#!/venv/bin/python
"""Mutation self-test: apply each deliberate property-breaking edit to a scratch worktree of
/repo (outside /repo and /verif, removed afterwards) and require the property's check to
report a VIOLATION naming the expected obligation.

usage: selftest.py [--property Cxx] [--id ID] [--tier quick] [--jobs N] [--patch file.diff --property Cxx]
"""
import argparse, json, os, shutil, subprocess, sys, tempfile
from concurrent.futures import ThreadPoolExecutor

VERIF = os.path.dirname(os.path.dirname(os.path.abspath(__file__)))


def run_check(tree, pid, tier, only=None):
    env = dict(os.environ)
    env["PIQUASSO_REPO"] = tree
    env["PIQ_TREE"] = tree
    env["PYTHONPATH"] = os.path.join(VERIF, "tools", "wtshim")
    ev = tempfile.mkdtemp(prefix="vf_ev_")
    env["VF_EVIDENCE_DIR"] = ev
    env["VF_REPLAY_DIR"] = os.path.join(ev, "replay")
    cmd = [os.path.join(VERIF, "check"), pid, "--tier", tier]
    if only:
        cmd += ["--only", only]
    p = subprocess.run(cmd, cwd=VERIF, env=env, capture_output=True, text=True)
    shutil.rmtree(ev, ignore_errors=True)
    return p.returncode, p.stdout + p.stderr


def make_tree():
    d = tempfile.mkdtemp(prefix="vf_mut_")
    os.rmdir(d)
    subprocess.run(["git", "-C", "/repo", "worktree", "add", "-q", "--detach", d, "HEAD"], check=True)
    # carry uncommitted changes of /repo's working tree too (checks must see the current tree)
    diff = subprocess.run(["git", "-C", "/repo", "diff", "HEAD"], capture_output=True, text=True).stdout
    if diff.strip():
        subprocess.run(["git", "-C", d, "apply"], input=diff, text=True, check=True)
    return d


def drop_tree(d):
    subprocess.run(["git", "-C", "/repo", "worktree", "remove", "--force", d])
    shutil.rmtree(d, ignore_errors=True)


def one(m, tier):
    d = make_tree()
    try:
        if "patch" in m:
            r = subprocess.run(["git", "-C", d, "apply", m["patch"]], capture_output=True, text=True)
            if r.returncode:   # patch made against an older base: fall back to a 3-way merge
                r = subprocess.run(["git", "-C", d, "apply", "--3way", m["patch"]], capture_output=True, text=True)
            if r.returncode:
                return m["id"], "PATCH-FAILED", r.stderr[-300:]
        else:
            path = os.path.join(d, m["file"])
            src = open(path).read()
            if src.count(m["find"]) < 1:
                return m["id"], "STALE", f"pattern not found in {m['file']}"
            src = src.replace(m["find"], m["replace"], m.get("count", 1))
            open(path, "w").write(src)
        code, out = run_check(d, m["property"], m.get("tier", tier), m.get("only"))
        viol = [l for l in out.splitlines() if l.startswith("VIOLATION") or l.startswith("  obligation:")]
        exp = m.get("expect")
        hit = code == 1 and (exp is None or any(exp in l for l in viol))
        return m["id"], ("KILLED" if hit else f"SURVIVED(exit={code})"), "\n".join(viol[:6]) or out[-600:]
    finally:
        drop_tree(d)


def main():
    ap = argparse.ArgumentParser()
    ap.add_argument("--property")
    ap.add_argument("--id")
    ap.add_argument("--tier", default="quick")
    ap.add_argument("--jobs", type=int, default=2)
    ap.add_argument("--patch")
    ap.add_argument("-v", action="store_true")
    a = ap.parse_args()
    if a.patch:
        muts = [{"id": os.path.basename(os.path.dirname(os.path.abspath(a.patch))) or "patch", "property": a.property,
                 "patch": os.path.abspath(a.patch)}]
    else:
        muts = json.load(open(os.path.join(VERIF, "selftest", "mutants.json")))
        if a.property:
            muts = [m for m in muts if m["property"] == a.property]
        if a.id:
            muts = [m for m in muts if m["id"] == a.id]
    bad = 0
    with ThreadPoolExecutor(a.jobs) as ex:
        for mid, verdict, info in ex.map(lambda m: one(m, a.tier), muts):
            print(f"{mid}: {verdict}")
            if a.v or not verdict.startswith("KILLED"):
                print("   " + info.replace("\n", "\n   "))
            bad += not verdict.startswith("KILLED")
    print(f"{len(muts) - bad}/{len(muts)} killed")
    sys.exit(1 if bad else 0)


if __name__ == "__main__":
    main()
