#!/venv/bin/python
"""Regenerate MANIFEST.json from the table below (single source; validated against the schema)."""
import json, os
VERIF = os.path.dirname(os.path.dirname(os.path.abspath(__file__)))

NA = {
 "C01": "cross-simulator agreement relates whole floating-point pipelines (Hermite/hafnian recurrences, SLOS, Bloch-Messiah via logm/polar/svd); no contract within reach can be discharged, and a run-time comparison would be differential testing, a different family (its discrete mechanisms are proved under C06/C07/C16)",
 "C02": "the law of returned samples equals the Born distribution: a property of the output distribution of a randomized procedure; pre/post-conditions speak about one call and one value and no probabilistic program logic is available (the structural sentence is proved under C03)",
 "C05": "agreement of permanent/loop-hafnian/Ryser/Laguerre formulas with a unitary dilation is an identity between floating special-function algorithms; only expressible as a numeric comparison",
 "C09": "equality across NumPy/TensorFlow/JAX connectors quantifies over two external tracing frameworks whose semantics no verifier here models",
 "C10": "autodiff gradients vs finite differences: TensorFlow custom_gradient closures and a JAX FFI VJP; the only oracle is numeric differentiation",
 "C17": "agreement of the two fermionic simulators is a relation between float pipelines (expm, Pfaffian, Laplace determinants); fermionic basis/rank is proved under C06",
 "C19": "needs Qiskit's simulator as oracle and holds only within the accuracy of fixed KLM angles; not a contract over piquasso's functions",
}
PENDING_REASON = "check under construction (planned in DESIGN.md section 5); not yet claimed"

# property -> (engine, category, text, note, technique, design_ref)
CHECKS = {}
exec(open(os.path.join(VERIF, "tools", "manifest_table.py")).read())

ALL = [f"C{i:02d}" for i in range(1, 21)]
checks = []
for pid in ALL:
    if pid in CHECKS:
        c = CHECKS[pid]
        checks.append({
            "property_id": pid,
            "quick_cmd": f"./check {pid} --tier quick",
            "thorough_cmd": f"./check {pid} --tier thorough",
            "evidence_file": f"/verif/evidence/{pid}.json",
            "replay_cmd_template": f"./check {pid} --replay {{path}}",
            "engine": c["engine"],
            "level_claimed": {"category": c["category"], "text": c["text"], "design_ref": c["design_ref"]},
            "level_note": c["note"],
            "technique": c["technique"],
        })
na = [{"property_id": k, "reason": v} for k, v in NA.items()]
na += [{"property_id": p, "reason": PENDING_REASON} for p in ALL if p not in CHECKS and p not in NA]
m = {
 "version": 1,
 "setup_cmd": SETUP_CMD,
 "hooks": {"guard": "PIQUASSO_VERIF",
           "enable": "no source hooks: contracts are sidecar files under /verif/contracts; extraction is mechanical (ast / clang AST / the connector seam) from /repo's working tree on every run",
           "baseline_off_cmd": "cd /repo && /venv/bin/python -m pytest -ra -q -p no:cacheprovider --timeout=900 --continue-on-collection-errors",
           "source_commits": [], "add_only": True},
 "engines": ENGINES,
 "checks": checks,
 "not_applicable": sorted(na, key=lambda e: e["property_id"]),
 "notes": "DESIGN.md is the authoritative description; known_findings.json lists genuine defects (known / fixed).",
}
import jsonschema
jsonschema.validate(m, json.load(open("/root/.vp/MANIFEST.schema.json")))
json.dump(m, open(os.path.join(VERIF, "MANIFEST.json"), "w"), indent=1)
print("MANIFEST.json written:", [c["property_id"] for c in checks])
