"""Redirect the scikit-build-core editable finder of piquasso from /repo to $PIQ_TREE.

Used only for scratch worktrees (seeded changes, mutation self-tests); the compiled
extension modules keep coming from /venv (they are not rebuilt from the tree).
"""
import os, sys

_tree = os.environ.get("PIQ_TREE")
if _tree:
    _tree = os.path.abspath(_tree)
    for _f in sys.meta_path:
        ksf = getattr(_f, "known_source_files", None)
        if isinstance(ksf, dict) and "piquasso" in ksf:
            for _k, _v in list(ksf.items()):
                if _v.startswith("/repo/"):
                    ksf[_k] = _tree + _v[len("/repo"):]
            if getattr(_f, "path", None) == "/repo":
                _f.path = _tree
