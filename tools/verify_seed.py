#!/venv/bin/python
"""Confirm a seeded change: applies to the pinned commit, demo passes without / fails with the
patch, and the pinned suite still passes with it.  usage: verify_seed.py <seed_dir> [--no-suite]"""
import json, os, subprocess, sys, tempfile, shutil, xml.etree.ElementTree as ET

seed = os.path.abspath(sys.argv[1])
no_suite = "--no-suite" in sys.argv
PIN = "c5117bd"
for a in sys.argv:
    if a.startswith("--base="):
        PIN = a.split("=", 1)[1]
out = {"seed": seed}


def sh(cmd, cwd=None, env=None, timeout=None):
    p = subprocess.run(cmd, cwd=cwd, env=env, capture_output=True, text=True, timeout=timeout)
    return p.returncode, (p.stdout + p.stderr)


def tree(patch=None):
    d = tempfile.mkdtemp(prefix="vf_seed_")
    os.rmdir(d)
    sh(["git", "-C", "/repo", "worktree", "add", "-q", "--detach", d, PIN])
    if patch:
        rc, o = sh(["git", "-C", d, "apply", patch])
        if rc:
            raise SystemExit(f"patch does not apply: {o}")
    return d


def drop(d):
    sh(["git", "-C", "/repo", "worktree", "remove", "--force", d])
    shutil.rmtree(d, ignore_errors=True)


def env_for(d):
    e = dict(os.environ)
    e["PIQ_TREE"] = d
    e["PYTHONPATH"] = "/verif/tools/wtshim"
    e.pop("PIQUASSO_VERIF", None)
    return e


clean = tree()
patched = tree(os.path.join(seed, "patch.diff"))
try:
    demo = os.path.join(seed, "demo.py")
    rc0, o0 = sh(["/venv/bin/python", demo], cwd=clean, env=env_for(clean), timeout=3000)
    rc1, o1 = sh(["/venv/bin/python", demo], cwd=patched, env=env_for(patched), timeout=3000)
    out["demo_clean_exit"] = rc0
    out["demo_patched_exit"] = rc1
    out["demo_patched_tail"] = o1.strip().splitlines()[-3:] if o1.strip() else []
    touched = [l.split(" b/", 1)[1].strip() for l in open(os.path.join(seed, "patch.diff")) if l.startswith("diff --git ")]
    if touched and all(t.startswith("src/") for t in touched):
        # the suite imports the prebuilt extension modules from /venv: a change of the native sources cannot change its result
        no_suite = True
        out["suite_skipped"] = "patch touches only native sources (src/); the pinned suite runs the prebuilt extensions"
    if not no_suite:
        base = json.load(open("/root/.vp/BASELINE.json"))
        stable = set(base["stable_pass"])
        junit = tempfile.mktemp(suffix=".xml")
        rc, o = sh(["/venv/bin/python", "-m", "pytest", "-q", "-p", "no:cacheprovider", "--timeout=1800",
                    "--continue-on-collection-errors", "-n", os.environ.get("SUITE_N", "6"), f"--junitxml={junit}"],
                   cwd=patched, env=env_for(patched), timeout=4 * 3600)
        passed = set()
        for tc in ET.parse(junit).getroot().iter("testcase"):
            if not any(ch.tag in ("failure", "error", "skipped") for ch in tc):
                passed.add(f"{tc.get('classname')}::{tc.get('name')}")
        os.unlink(junit)
        missing = sorted(stable - passed)
        out["suite_missing"] = missing[:30]
        out["suite_n_missing"] = len(missing)
        out["suite_tail"] = o.strip().splitlines()[-1] if o.strip() else ""
    out["confirmed"] = rc0 == 0 and rc1 != 0 and (no_suite or out["suite_n_missing"] == 0)
finally:
    drop(clean)
    drop(patched)
json.dump(out, open(os.path.join(seed, "verify.json"), "w"), indent=1)
print(json.dumps(out, indent=1)[:1500])
