#!/venv/bin/python
"""Print the prompt for a mutation sub-agent: only the property text + its worktree."""
import json, sys, subprocess, os
pid = sys.argv[1]
tag = sys.argv[2] if len(sys.argv) > 2 else ""
wt = f"/tmp/wt_{pid}{tag}"
out = f"/tmp/seed_{pid}{tag}"
rec = next(json.loads(l) for l in open("/verif/properties.jsonl") if json.loads(l)["id"] == pid)
if not os.path.isdir(wt):
    subprocess.run(["git", "-C", "/repo", "worktree", "add", "-q", "--detach", wt, "HEAD"], check=True)
os.makedirs(out, exist_ok=True)
print(f"""You are helping to evaluate a verification effort for the open-source Python package piquasso (a photonic quantum computer simulator). Your job is to play the adversary: produce realistic code changes ("seeded defects") that BREAK one stated semantic property of the library while the code still imports/compiles and the existing test-suite still passes.

Your private scratch git worktree of the repository is {wt} (a detached worktree of the pinned commit). Work ONLY there and under {out}/ . Never read or modify /repo or /verif. Read /tmp/wtshim/README.txt first: it explains how to run Python and the tests against your worktree (the package is installed editable and otherwise always imports /repo).

The property (this JSON record is everything you are told about it):

{json.dumps(rec, indent=1)}

What to deliver: up to THREE independent changes (fewer is fine if good ones are hard to find; quality over quantity), each of which
  * is a small, realistic edit of library code under {wt}/piquasso or {wt}/src (the kind of slip or "optimisation" a maintainer could plausibly commit) - not a change to tests, and not a sabotage that only fires on a magic constant;
  * breaks the property above for some inputs;
  * still lets the whole existing test-suite pass. IMPORTANT: do NOT run the full suite yourself (the machine is shared and it takes very long) - run only the test files/directories that exercise the code you touch (at most `-n 2`), list in meta.json exactly which test paths you ran and their result, and argue briefly why no other test can notice the change; the full suite will be run centrally afterwards;
  * needs something SPECIFIC to manifest rather than being exposed by ordinary use at once: e.g. an unusual input (large multiplicity, a non-ascending mode tuple, a particular cutoff, hbar != 2, a failing path / exception at a particular stage, a multi-step sequence of operations, re-execution of the same objects, a particular thread count) or two cooperating sites that each look fine alone. Prefer changes at different places / mechanisms of the property for your different patches.
For each change write into {out}/<k>/ (k = 1,2,3):
  * patch.diff  - `git -C {wt} diff` of exactly that one change relative to the pinned commit (each patch must apply on its own to a clean tree: reset the worktree with `git -C {wt} checkout -- .` between patches);
  * demo.py     - a small self-contained program that exits 0 on the unmodified tree and exits non-zero (with a short message saying what went wrong) with the patch applied, when run as `cd <tree> && PIQ_TREE=<tree> PYTHONPATH=/tmp/wtshim /venv/bin/python demo.py`; for native-code changes demo.py may build the extension itself from <tree>/src as the README shows (take the tree from the PIQ_TREE environment variable);
  * meta.json   - {{"property": "{pid}", "summary": "...", "files": [...], "needs_to_manifest": "...", "targeted_tests_run": ["<paths>"], "targeted_result_with_patch": "<last line>", "demo_without_patch": "exit 0", "demo_with_patch": "<exit code + message>"}}.
Verify it yourself: demo passes without and fails with the patch; the targeted tests still pass with the patch. Leave the worktree clean (git checkout -- .) when done, and remove any build output you created outside {out}. In your final answer, list for each change one line: the file/function touched, what it breaks, what it needs to manifest, and the verified suite/demo results.""")
