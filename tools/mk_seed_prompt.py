#!/venv/bin/python
"""Print the prompt for a mutation sub-agent: only the property text + its worktree."""
import json, sys, subprocess, os
pid = sys.argv[1]
tag = sys.argv[2] if len(sys.argv) > 2 else ""
wt = f"/tmp/wt_{pid}{tag}"
out = f"/tmp/seed_{pid}{tag}"
rec = next(json.loads(l) for l in open("/verif/properties.jsonl") if json.loads(l)["id"] == pid)
if not os.path.isdir(wt):
    subprocess.run(["git", "-C", "/repo", "worktree", "add", "-q", "--detach", wt, "HEAD"], check=True)
os.makedirs(out, exist_ok=True)
print(f"""You are helping to evaluate a verification effort for the open-source Python package piquasso (a photonic quantum computer simulator). Your job is to play the adversary: produce realistic code changes ("seeded defects") that BREAK one stated semantic property of the library while the code still imports/compiles and the existing test-suite still passes.

Your private scratch git worktree of the repository is {wt} (a detached worktree of the pinned commit). Work ONLY there and under {out}/ . Never read or modify /repo or /verif. Read /tmp/wtshim/README.txt first: it explains how to run Python and the tests against your worktree (the package is installed editable and otherwise always imports /repo).

The property (this JSON record is everything you are told about it):

{json.dumps(rec, indent=1)}

What to deliver: up to THREE independent changes (fewer is fine if good ones are hard to find; quality over quantity), each of which
  * is a small, realistic edit of library code under {wt}/piquasso or {wt}/src (the kind of slip or "optimisation" a maintainer could plausibly commit) - not a change to tests, and not a sabotage that only fires on a magic constant;
  * breaks the property above for some inputs;
  * still lets the whole existing test-suite pass (same 1776 passed as the unmodified tree - see the README for the exact command; use targeted test directories while iterating and the full suite with -n 4 only once per final patch);
  * needs something SPECIFIC to manifest rather than being exposed by ordinary use at once: e.g. an unusual input (large multiplicity, a non-ascending mode tuple, a particular cutoff, hbar != 2, a failing path / exception at a particular stage, a multi-step sequence of operations, re-execution of the same objects, a particular thread count) or two cooperating sites that each look fine alone. Prefer changes at different places / mechanisms of the property for your different patches.
For each change write into {out}/<k>/ (k = 1,2,3):
  * patch.diff  - `git -C {wt} diff` of exactly that one change relative to the pinned commit (each patch must apply on its own to a clean tree: reset the worktree with `git -C {wt} checkout -- .` between patches);
  * demo.py     - a small self-contained program that exits 0 on the unmodified tree and exits non-zero (with a short message saying what went wrong) with the patch applied, when run as `cd <tree> && PIQ_TREE=<tree> PYTHONPATH=/tmp/wtshim /venv/bin/python demo.py`; for native-code changes demo.py may build the extension itself from <tree>/src as the README shows (take the tree from the PIQ_TREE environment variable);
  * meta.json   - {{"property": "{pid}", "summary": "...", "files": [...], "needs_to_manifest": "...", "suite_result_with_patch": "<last line of the full pytest run>", "demo_without_patch": "exit 0", "demo_with_patch": "<exit code + message>"}}.
Verify all of it yourself (demo passes without, fails with; full suite still 1776 passed with the patch). Leave the worktree clean (git checkout -- .) when done, and remove any build output you created outside {out}. In your final answer, list for each change one line: the file/function touched, what it breaks, what it needs to manifest, and the verified suite/demo results.""")
