#!/venv/bin/python
"""Copy the CONFIRMED seeded changes (demo passes on the clean tree, fails with the patch, pinned suite passes with the patch:
tools/verify_seed.py -> verify.json) from the scratch area into /verif/seeded/<property>/<k>/ and write the table of
DESIGN.md section 14.  usage: collect_seeds.py <scratch root, default /tmp> [results.json]

results.json: {"C03/1": {"verdict": "KILLED", "by": ["obligation", ...], "ran": "command"}, ...} - what my checks reported when
the patch was applied to a scratch worktree of /repo (tools/selftest.py --patch ... --property ...)."""
import json, os, shutil, subprocess, sys

root = sys.argv[1] if len(sys.argv) > 1 else "/tmp"
results = json.load(open(sys.argv[2])) if len(sys.argv) > 2 else {}
VERIF = os.path.dirname(os.path.dirname(os.path.abspath(__file__)))
rows = []
for pid in sorted(d[5:] for d in os.listdir(root) if d.startswith("seed_C")):
    for k in sorted(os.listdir(os.path.join(root, "seed_" + pid))):
        src = os.path.join(root, "seed_" + pid, k)
        if not (k.isdigit() and os.path.isfile(os.path.join(src, "patch.diff"))):
            continue
        key = f"{pid}/{k}"
        vj = os.path.join(src, "verify.json")
        meta = json.load(open(os.path.join(src, "meta.json"))) if os.path.isfile(os.path.join(src, "meta.json")) else {}
        summary = str(meta.get("summary", ""))
        if not os.path.isfile(vj):
            rows.append((key, "not kept", "suite confirmation not run (time budget)", summary, results.get(key, {})))
            continue
        v = json.load(open(vj))
        HEAVY = {"benchmarks.tf_1_mode_cvnn_benchmark::piquasso_benchmark",
                 "tests.slow.test_sampling::test_gaussian_boson_sampling_chi_square_hypothesis_test",
                 "tests.slow.test_sampling::test_threshold_gaussian_boson_sampling_chi_square_hypothesis_test"}
        if not v.get("confirmed") and v.get("demo_clean_exit") == 0 and v.get("demo_patched_exit") and v.get("suite_n_missing") \
                and set(v.get("suite_missing", [])) <= HEAVY:
            rows.append((key, "not kept", f"suite confirmation incomplete: every stable test passed with the patch except {v['suite_n_missing']} very heavy "
                         "sampling tests (10000-shot GBS, ~100 CPU-minutes each) that hit the per-test timeout while the machine was overloaded; "
                         "not re-run for lack of time", summary, results.get(key, {})))
            continue
        if not v.get("confirmed"):
            why = "existing tests fail with the patch: " + ", ".join(v.get("suite_missing", [])[:2]) if v.get("suite_n_missing") else \
                f"demo exit clean={v.get('demo_clean_exit')} patched={v.get('demo_patched_exit')}"
            rows.append((key, "not kept", why, summary, results.get(key, {})))
            continue
        dst = os.path.join(VERIF, "seeded", pid, k)
        os.makedirs(dst, exist_ok=True)
        for f in ("patch.diff", "demo.py", "patch_head.diff"):
            if os.path.isfile(os.path.join(src, f)):
                shutil.copy(os.path.join(src, f), os.path.join(dst, f))
        wt = os.path.join(root, "wt_" + pid)
        base = None
        if os.path.isdir(wt):
            base = subprocess.run(["git", "-C", wt, "rev-parse", "--short", "HEAD"], capture_output=True, text=True).stdout.strip()
        if not base:     # the agents' worktrees are removed at the end; their base commits were:
            base = "c5117bd" if pid in ("C03", "C06", "C07", "C12", "C20") else "83b21a8"
        r = results.get(key, {})
        out = {
            "property": pid,
            "breaks": summary,
            "needs_to_manifest": meta.get("needs_to_manifest"),
            "files": meta.get("files"),
            "base_commit": base or meta.get("base_commit"),
            "confirmed": {
                "demo_exit_on_clean_tree": v.get("demo_clean_exit"), "demo_exit_with_patch": v.get("demo_patched_exit"),
                "demo_output_with_patch": v.get("demo_patched_tail"),
                "pinned_suite_with_patch": v.get("suite_skipped") or f"{v.get('suite_n_missing')} of the 1776 stable tests missing",
                "how": "tools/verify_seed.py: scratch worktrees of /repo at base_commit (clean, and with patch.diff applied), demo.py run in "
                       "both, then the pinned pytest suite (BASELINE.json) with the patch; worktrees removed afterwards",
            },
            "checks": {
                "ran": r.get("ran", f"tools/selftest.py --patch patch.diff --property {pid} (scratch worktree of /repo HEAD + patch, "
                                    f"./check {pid} --tier quick with PIQUASSO_REPO pointing at it)"),
                "verdict": r.get("verdict"), "reported_obligations": r.get("by"), "note": r.get("note"),
            },
            "author_notes": {k_: meta[k_] for k_ in meta if k_ not in ("summary", "needs_to_manifest", "files", "property")},
        }
        json.dump(out, open(os.path.join(dst, "meta.json"), "w"), indent=1)
        rows.append((key, "kept", "", summary, r))
with open(os.path.join(VERIF, "seeded", "TABLE.md"), "w") as f:
    f.write("| seed | kept | change (short) | caught by | obligations that reported it |\n|---|---|---|---|---|\n")
    for key, kept, why, summary, r in rows:
        short = " ".join(summary.split())[:160].replace("|", "/")
        by = "; ".join((r.get("by") or [])[:3]).replace("|", "/")
        f.write(f"| {key} | {kept}{(' - ' + why) if why else ''} | {short} | {r.get('verdict', '-')} | {by} |\n")
print(open(os.path.join(VERIF, "seeded", "TABLE.md")).read())
