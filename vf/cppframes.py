"""Write sets of the native kernels (C12/native): does a kernel write into memory reachable from a
reference/pointer parameter (which, through numpy_to_matrix / numpy_to_vector, is the caller's numpy
buffer)?  Decided on the clang AST of the real sources; summaries are propagated through calls.

A write is an assignment / compound assignment / ++ / -- whose l-value goes through operator[] /
operator() / [] / * / .data of a parameter (or of a local pointer/reference initialised from one),
or a call to a writing std routine (memcpy, std::swap, std::copy, fill...) with such a destination,
or a call to a kernel function whose summary says it writes that argument.  Assigning the Matrix /
Vector parameter itself (`A = mtx_`) only re-points the wrapper object and is reported separately.
"""
from __future__ import annotations

import os
import re

from . import cppvc
from .common import REPO
from .pyvc import Unsupported

STD_WRITERS = {"memcpy": [0], "memmove": [0], "memset": [0], "swap": [0, 1], "uninitialized_copy_n": [2], "copy": [2],
               "copy_n": [2], "fill": [0], "fill_n": [0], "iota": [0], "sort": [0], "reverse": [0]}


def _strip(n):
    while n.get("kind") in ("ImplicitCastExpr", "ParenExpr", "ExprWithCleanups", "MaterializeTemporaryExpr", "CXXBindTemporaryExpr",
                            "CXXStaticCastExpr", "CStyleCastExpr", "CXXFunctionalCastExpr", "CXXConstCastExpr", "CXXReinterpretCastExpr"):
        if not n.get("inner"):
            break
        n = n["inner"][0]
    return n


def _callee_name(n):
    c = _strip(n["inner"][0]) if n.get("inner") else {}
    if c.get("kind") == "DeclRefExpr":
        return c["referencedDecl"]["name"]
    if c.get("kind") == "MemberExpr":
        return c["name"]
    if c.get("kind") == "UnresolvedLookupExpr":
        return c.get("name", "?")
    return "?"


class FunctionFacts:
    def __init__(self, node):
        self.node = node
        self.name = node["name"]
        self.params = [c["name"] for c in node.get("inner", []) if c.get("kind") == "ParmVarDecl" and c.get("name")]
        self.param_types = {c["name"]: cppvc.qt(c) for c in node.get("inner", []) if c.get("kind") == "ParmVarDecl" and c.get("name")}
        self.element_writes = {}      # param -> [line]
        self.rebinds = {}             # param -> [line]
        self.calls = []               # (callee, [root param or None per argument], line)


def analyse(node):
    f = FunctionFacts(node)
    alias = {p: p for p in f.params}      # local name -> root parameter
    line = [0]

    def root_of(e, element=False):
        """-> (root param or None, went_through_element_access)"""
        e = _strip(e)
        k = e.get("kind")
        if k == "DeclRefExpr":
            nm = e["referencedDecl"]["name"]
            return alias.get(nm), element
        if k == "CXXOperatorCallExpr":
            op = _callee_name(e)
            if op in ("operator[]", "operator()", "operator*", "operator->"):
                return root_of(e["inner"][1], True)
            return None, element
        if k == "ArraySubscriptExpr":
            return root_of(e["inner"][0], True)
        if k == "UnaryOperator" and e.get("opcode") in ("*",):
            return root_of(e["inner"][0], True)
        if k == "UnaryOperator" and e.get("opcode") in ("&",):
            return root_of(e["inner"][0], element)
        if k == "MemberExpr":
            r, el = root_of(e["inner"][0], element)
            # .data / ->data of a Matrix/Vector parameter is its buffer
            return r, el or e.get("name") in ("data",)
        if k == "BinaryOperator" and e.get("opcode") in ("+", "-"):
            return root_of(e["inner"][0], element)
        if k == "CXXMemberCallExpr":
            c = _strip(e["inner"][0])
            if c.get("kind") == "MemberExpr" and c.get("name") in ("data", "begin", "end", "get_data"):
                r, el = root_of(c["inner"][0], element)
                return r, True
            return None, element
        return None, element

    def note_write(lhs):
        r, el = root_of(lhs)
        if r is None:
            return
        (f.element_writes if el else f.rebinds).setdefault(r, []).append(line[0])

    def walk(n):
        ln = (n.get("range", {}).get("begin", {}) or {}).get("line")
        if ln:
            line[0] = ln
        k = n.get("kind")
        if k == "VarDecl":
            t = cppvc.qt(n)
            inits = [c for c in n.get("inner", []) if c.get("kind")]
            if inits and ("*" in t or "&" in t):
                r, el = root_of(inits[0])
                if r is not None:
                    alias[n["name"]] = r
        if k == "BinaryOperator" and n.get("opcode") == "=":
            note_write(n["inner"][0])
        elif k == "CompoundAssignOperator":
            note_write(n["inner"][0])
        elif k == "UnaryOperator" and n.get("opcode") in ("++", "--"):
            note_write(n["inner"][0])
        elif k == "CXXOperatorCallExpr":
            op = _callee_name(n)
            if op in ("operator=", "operator+=", "operator-=", "operator*=", "operator/="):
                note_write(n["inner"][1])
        elif k == "CallExpr":
            nm = _callee_name(n)
            args = n["inner"][1:]
            roots = []
            for a in args:
                r, el = root_of(a)
                roots.append(r)
            if nm in STD_WRITERS:
                for i in STD_WRITERS[nm]:
                    if i < len(args):
                        r, el = root_of(args[i])
                        if r is not None:
                            f.element_writes.setdefault(r, []).append(line[0])
            f.calls.append((nm, roots, line[0]))
        for c in n.get("inner", []) or []:
            if isinstance(c, dict):
                walk(c)

    body = next((c for c in node.get("inner", []) if c.get("kind") == "CompoundStmt"), None)
    if body is not None:
        walk(body)
    return f


def kernel_write_sets(src_rel, names, repo=None):
    """-> {function name: FunctionFacts} for the named kernels and the functions they call (2 levels)"""
    facts = {}
    todo = list(names)
    seen = set()
    for _level in range(3):
        nxt = []
        for nm in todo:
            if nm in seen:
                continue
            seen.add(nm)
            try:
                docs = cppvc.clang_ast(src_rel, nm, repo)
            except Unsupported:
                continue
            found = []

            def walk(n):
                if n.get("kind") in ("FunctionDecl", "CXXMethodDecl") and n.get("name") == nm and any(
                        c.get("kind") == "CompoundStmt" for c in n.get("inner", [])):
                    found.append(n)
                for c in n.get("inner", []) or []:
                    if isinstance(c, dict):
                        walk(c)

            for d in docs:
                walk(d)
            for node in found[:1] if not found else found:
                ff = analyse(node)
                old = facts.get(nm)
                if old is None:
                    facts[nm] = ff
                else:   # merge instantiations
                    for k, v in ff.element_writes.items():
                        old.element_writes.setdefault(k, []).extend(v)
                    old.calls.extend(ff.calls)
                for callee, roots, _ in ff.calls:
                    if any(r is not None for r in roots) and callee not in seen and callee not in STD_WRITERS:
                        nxt.append(callee)
        todo = nxt
    # propagate summaries through calls
    changed = True
    while changed:
        changed = False
        for ff in facts.values():
            for callee, roots, ln in ff.calls:
                g = facts.get(callee)
                if g is None:
                    continue
                for i, r in enumerate(roots):
                    if r is not None and i < len(g.params) and g.params[i] in g.element_writes:
                        if ln not in ff.element_writes.get(r, []):
                            ff.element_writes.setdefault(r, []).append(ln)
                            changed = True
    return facts


def wrapper_views(wrapper_rel, repo=None):
    """pybind wrappers: for each call `<kernel>_cpp(args)` report, per argument, whether the variable is a
    non-owning view of a numpy buffer (numpy_to_matrix / numpy_to_vector) or a copy"""
    repo = repo or REPO
    src = open(os.path.join(repo, wrapper_rel)).read()
    out = []
    for m in re.finditer(r"(\w+_cpp|grad_perm)\s*(?:<[^>]*>)?\s*\(([^;]*?)\)\s*;", src):
        kernel, args = m.group(1), [a.strip() for a in m.group(2).split(",")]
        start = src.rfind("\n{", 0, m.start())
        scope = src[start:m.start()]
        kinds = []
        for a in args:
            d = re.search(r"\b" + re.escape(a) + r"\s*=\s*([^;]*);", scope)
            init = d.group(1) if d else ""
            if "numpy_to_matrix" in init or "numpy_to_vector" in init:
                kinds.append("copy" if ".copy()" in init else "view")
            else:
                kinds.append("other")
        out.append({"kernel": kernel, "args": args, "kinds": kinds, "line": src.count("\n", 0, m.start()) + 1})
    return out
