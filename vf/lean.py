"""Lean lemma layer (DESIGN 2.5): the lemma file must compile with no `sorry`/extra axioms and must
contain every theorem named by a lemma instance used in a VC.  The compile result is cached under
/verif/.cache keyed by the hash of the lemma source (which does not depend on /repo)."""
from __future__ import annotations

import os
import re
import subprocess
import time

from .common import VERIF, sha

LEAN_FILE = os.path.join(VERIF, "lemmas", "PiquassoLemmas.lean")


def compile_lemmas(force=False):
    src = open(LEAN_FILE).read()
    key = sha(src)
    cache = os.path.join(VERIF, ".cache")
    os.makedirs(cache, exist_ok=True)
    marker = os.path.join(cache, f"lean_ok_{key}")
    if os.path.exists(marker) and not force:
        return True, "cached " + open(marker).read().strip(), 0.0
    t0 = time.time()
    probe = src + "\n\nnamespace PiquassoLemmas\n" + "\n".join(
        f"#print axioms {n}" for n in theorem_names(src)) + "\nend PiquassoLemmas\n"
    tmp = os.path.join(cache, f"probe_{key}.lean")
    with open(tmp, "w") as f:
        f.write(probe)
    try:
        p = subprocess.run(["lean", tmp], capture_output=True, text=True, timeout=3600, cwd=cache)
    except subprocess.TimeoutExpired:
        return False, "lean timed out", time.time() - t0
    finally:
        if os.path.exists(tmp):
            os.unlink(tmp)
    out = p.stdout + p.stderr
    dt = time.time() - t0
    if p.returncode != 0 or "error" in out:
        return False, out[-1500:], dt
    bad_axioms = [l for l in out.splitlines() if "sorryAx" in l]
    code = re.sub(r"/-.*?-/", "", src, flags=re.S)
    code = re.sub(r"--.*", "", code)
    if bad_axioms or re.search(r"\bsorry\b", code):
        return False, "sorry / sorryAx found: " + "; ".join(bad_axioms)[:500], dt
    extra = set(re.findall(r"depends on axioms: \[([^\]]*)\]", out))
    allowed = {"propext", "Classical.choice", "Quot.sound"}
    for group in extra:
        for a in (x.strip() for x in group.split(",")):
            if a and a not in allowed:
                return False, f"non-standard axiom {a}", dt
    if re.search(r"^\s*axiom\s", code, re.M):
        return False, "the lemma file declares an axiom", dt
    with open(marker, "w") as f:
        f.write(f"compiled in {dt:.0f}s at {time.strftime('%Y-%m-%d %H:%M:%S')}\n")
    return True, f"compiled in {dt:.0f}s", dt


def theorem_names(src=None):
    src = src if src is not None else open(LEAN_FILE).read()
    return re.findall(r"^theorem\s+([A-Za-z_0-9']+)", src, re.M)


def check_lemmas(run, spec, prefix=None):
    """obligations: the Lean file compiles; every lemma with a `lean=PiquassoLemmas.x` field exists"""
    pid = run.pid
    ok, msg, dt = compile_lemmas()
    name = f"{pid}/lean/PiquassoLemmas.lean-compiles-without-sorry-or-axioms"
    if ok:
        run.discharged(name, "lean", "lean4+mathlib", dt, sample={"status": msg, "theorems": theorem_names()})
    else:
        run.undecided_ob(name, "lean", "lean4+mathlib", "lemma file does not compile: " + msg[-300:], dt)
    have = set(theorem_names())
    for lname, lem in spec.lemmas.items():
        lean = lem.get("lean", "")
        if not lean.startswith("PiquassoLemmas."):
            continue
        n = f"{pid}/lean/lemma-{lname}-is-a-theorem"
        if lean.split(".", 1)[1] in have:
            run.discharged(n, "lean", "lean4+mathlib", 0.0)
        else:
            run.undecided_ob(n, "lean", "lean4+mathlib", f"{lean} not found in the lemma file")
    run.trust("lemmas/PiquassoLemmas.lean statements are transcribed by hand from contracts/C06_int.py:LEMMAS (same formulas; the transcription is trusted)")


if __name__ == "__main__":
    import sys

    ok, msg, dt = compile_lemmas(force="--force" in sys.argv)
    print("OK" if ok else "FAILED", msg)
    sys.exit(0 if ok else 1)
