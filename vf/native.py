"""Build the ctypes shim together with the REAL kernels of <repo>/src (cached by source hash)."""
from __future__ import annotations

import ctypes
import hashlib
import os
import subprocess

from .common import REPO, VERIF

SOURCES = ["src/permanent.cpp", "src/permanent_laplace.cpp"]
HEADERS = ["src/matrix.hpp", "src/utils.hpp", "src/n_aryGrayCodeCounter.hpp", "src/permanent.hpp", "src/permanent_laplace.hpp"]


def build(repo=None, openmp=True):
    repo = repo or REPO
    h = hashlib.sha256()
    for rel in SOURCES + HEADERS:
        with open(os.path.join(repo, rel), "rb") as f:
            h.update(f.read())
    shim = os.path.join(VERIF, "native", "shim.cpp")
    h.update(open(shim, "rb").read())
    h.update(b"omp" if openmp else b"noomp")
    d = os.path.join(VERIF, ".cache", "native", h.hexdigest()[:16])
    so = os.path.join(d, "libperm.so")
    if not os.path.exists(so):
        os.makedirs(d, exist_ok=True)
        cmd = ["g++", "-O1", "-shared", "-fPIC", "-std=c++17", f"-I{os.path.join(repo, 'src')}", shim] + \
              [os.path.join(repo, s) for s in SOURCES] + (["-fopenmp"] if openmp else []) + ["-o", so + ".tmp"]
        p = subprocess.run(cmd, capture_output=True, text=True)
        if p.returncode:
            raise RuntimeError("native build failed: " + p.stderr[-800:])
        os.replace(so + ".tmp", so)
    lib = ctypes.CDLL(so)
    lib.perm.restype = ctypes.c_int
    lib.perm_laplace.restype = ctypes.c_int
    lib.gray_run.restype = ctypes.c_int
    lib.force_threads.argtypes = [ctypes.c_long]
    return lib


def permanent(lib, A, rows, cols, laplace=False):
    import numpy as np

    A = np.ascontiguousarray(A, dtype=complex)
    n, m = A.shape
    a = np.empty(2 * n * m)
    a[0::2] = A.real.ravel()
    a[1::2] = A.imag.ravel()
    r = np.ascontiguousarray(rows, dtype=np.int32)
    c = np.ascontiguousarray(cols, dtype=np.int32)
    out = np.zeros(2 * (m if laplace else 1))
    f = lib.perm_laplace if laplace else lib.perm
    rc = f(a.ctypes.data_as(ctypes.c_void_p), ctypes.c_int(n), ctypes.c_int(m), r.ctypes.data_as(ctypes.c_void_p),
           c.ctypes.data_as(ctypes.c_void_p), out.ctypes.data_as(ctypes.c_void_p))
    if rc:
        raise ValueError("kernel threw")
    z = out[0::2] + 1j * out[1::2]
    return z if laplace else z[0]


PYBIND_INC = ["-I/venv/lib/python3.12/site-packages/tensorflow/include/external/pybind11/include",
              "-I/root/.pyenv/versions/3.12.1/include/python3.12"]
PYBIND_MODULES = {
    "permanent": ["piquasso/_math/permanent.cpp", "src/permanent.cpp", "src/permanent_laplace.cpp"],
    "torontonian": ["piquasso/_math/torontonian.cpp", "src/torontonian.cpp", "src/loop_torontonian.cpp", "src/torontonian_common.cpp"],
    "pfaffian": ["piquasso/_math/pfaffian.cpp", "src/pfaffian.cpp"],
}


def build_pybind(name, repo=None):
    """rebuild a pybind extension module from the working tree (the .so in /venv is NOT rebuilt from /repo)
    and import it under a private name"""
    import importlib.util

    repo = repo or REPO
    srcs = PYBIND_MODULES[name]
    h = hashlib.sha256()
    for rel in srcs:
        h.update(open(os.path.join(repo, rel), "rb").read())
    for rel in os.listdir(os.path.join(repo, "src")):
        if rel.endswith(".hpp"):
            h.update(open(os.path.join(repo, "src", rel), "rb").read())
    d = os.path.join(VERIF, ".cache", "native", "py_" + name + "_" + h.hexdigest()[:16])
    so = os.path.join(d, f"{name}.cpython-312-x86_64-linux-gnu.so")
    if not os.path.exists(so):
        os.makedirs(d, exist_ok=True)
        cmd = ["g++", "-O2", "-shared", "-fPIC", "-std=c++17", "-fopenmp", *PYBIND_INC, f"-I{os.path.join(repo, 'src')}"] + \
              [os.path.join(repo, s) for s in srcs] + ["-o", so + ".tmp"]
        p = subprocess.run(cmd, capture_output=True, text=True)
        if p.returncode:
            raise RuntimeError(f"pybind build of {name} failed: " + p.stderr[-800:])
        os.replace(so + ".tmp", so)
    spec = importlib.util.spec_from_file_location(name, so)
    mod = importlib.util.module_from_spec(spec)
    spec.loader.exec_module(mod)
    return mod


if __name__ == "__main__":
    # setup: pre-build the ctypes shim and the pybind modules from the current /repo sources
    build()
    for _n in PYBIND_MODULES:
        build_pybind(_n)
    print("native builds ready")
