"""Exact symbolic scalars for the `symtrace` engine (DESIGN 2.3).

`P` is a Laurent polynomial over Q(i) in *real* atoms, kept in normal form modulo the
relation set

    sin(t)^2  = 1 - cos(t)^2          (per angle atom t)
    sinh(r)^2 = cosh(r)^2 - 1         (per real atom r)
    (sqrt2)^2 = 2

The leading terms of the relations are pure squares of pairwise distinct atoms, so the
relation set is its own Groebner basis (coprime leading terms) and rewriting `a^2 -> rhs`
is a terminating, confluent, *complete* normal form: two expressions are equal for all
real values of the atoms (consistent with the relations) iff their normal forms are
identical.  hbar is represented as (sqrt_hbar)^2 with sqrt_hbar an invertible atom, so
sqrt(2*hbar) needs no relation.

Anything outside this algebra raises `Refuse` -> the obligation is *undecided*, never true.
"""
from __future__ import annotations

import math
from fractions import Fraction

import numpy as np


class Refuse(Exception):
    """The symbolic domain does not model this operation."""


# --------------------------------------------------------------------------- atoms
class _Atoms:
    def __init__(self):
        self.names: list[str] = []
        self.index: dict[str, int] = {}
        self.invertible: set[int] = set()
        self.rules: dict[int, "P"] = {}      # atom a: a^2 -> P
        self.kind: dict[int, tuple] = {}      # ('cos', base) ...
        self.inexact_floats: list[float] = []
        self.tainted: set[int] = set()      # opaque atoms whose argument depends on hbar
        self.assumed: list[str] = []         # generic-point path assumptions taken

    def get(self, name, invertible=False, kind=None):
        if name not in self.index:
            self.index[name] = len(self.names)
            self.names.append(name)
        i = self.index[name]
        if invertible:
            self.invertible.add(i)
        if kind:
            self.kind[i] = kind
        return i


ATOMS = _Atoms()

_ZERO = Fraction(0)
_ONE = Fraction(1)


def _cmul(a, b):
    ar, ai = a
    br, bi = b
    if ai == 0 and bi == 0:
        return (ar * br, _ZERO)
    return (ar * br - ai * bi, ar * bi + ai * br)


_FLOAT_TABLE = None


def _float_table():
    global _FLOAT_TABLE
    if _FLOAT_TABLE is None:
        r2 = sqrt2()
        t = {}
        for f, val in [
            (math.sqrt(2), r2),
            (1 / math.sqrt(2), r2 * Fraction(1, 2)),
            (math.sqrt(2) / 2, r2 * Fraction(1, 2)),
            (float(np.sqrt(2)), r2),
            (float(1 / np.sqrt(2)), r2 * Fraction(1, 2)),
            (float(np.sqrt(0.5)), r2 * Fraction(1, 2)),
            (2 * math.sqrt(2), r2 * 2),
        ]:
            t[f] = val
            t[-f] = -val
        _FLOAT_TABLE = t
    return _FLOAT_TABLE


def _is_nice(fr: Fraction) -> bool:
    return fr.denominator <= (1 << 24)


def coerce(x) -> "P":
    if isinstance(x, P):
        return x
    if isinstance(x, (bool, np.bool_)):
        return P.const(int(x))
    if isinstance(x, (int, np.integer)):
        return P.const(Fraction(int(x)))
    if isinstance(x, Fraction):
        return P.const(x)
    if isinstance(x, (float, np.floating)):
        return _from_float(float(x))
    if isinstance(x, (complex, np.complexfloating)):
        x = complex(x)
        return _from_float(x.real) + _from_float(x.imag) * P.I()
    if isinstance(x, np.ndarray) and x.ndim == 0:
        return coerce(x.item())
    raise Refuse(f"cannot coerce {type(x).__name__} into the symbolic domain")


def _from_float(f: float) -> "P":
    if f == 0:
        return P.const(0)
    if f != f or f in (math.inf, -math.inf):
        raise Refuse("nan/inf")
    tab = _float_table()
    if f in tab:
        return tab[f]
    fr = Fraction(f)
    if not _is_nice(fr):
        ATOMS.inexact_floats.append(f)
    return P.const(fr)


class P:
    """Laurent polynomial over Q(i); terms: {monomial: (re, im)}, monomial = ((atom, exp), ...)"""

    __slots__ = ("t",)

    def __init__(self, terms=None):
        self.t = terms or {}

    # -- constructors
    @staticmethod
    def const(c, im=0):
        c = Fraction(c)
        im = Fraction(im)
        if c == 0 and im == 0:
            return P()
        return P({(): (c, im)})

    @staticmethod
    def I():
        return P({(): (_ZERO, _ONE)})

    @staticmethod
    def atom(name, invertible=False, kind=None):
        i = ATOMS.get(name, invertible, kind)
        return P({((i, 1),): (_ONE, _ZERO)})

    # -- predicates
    def is_zero(self):
        return not self.t

    def is_const(self):
        return all(m == () for m in self.t)

    def const_value(self):
        if not self.t:
            return complex(0)
        (re, im) = self.t[()]
        return complex(re, im)

    def __bool__(self):
        if self.is_const():
            return bool(self.t)
        raise Refuse("truth value of a symbolic scalar")

    def __eq__(self, other):
        try:
            d = self - coerce(other)
        except Refuse:
            return NotImplemented
        if d.is_zero():
            return True
        if d.is_const():
            return False
        raise Refuse("equality test between non-identical symbolic scalars")

    def __ne__(self, other):
        r = self.__eq__(other)
        return r if r is NotImplemented else not r

    __hash__ = None

    # -- arithmetic
    def __neg__(self):
        return P({m: (-c[0], -c[1]) for m, c in self.t.items()})

    def __pos__(self):
        return self

    def __add__(self, other):
        try:
            other = coerce(other)
        except Refuse:
            return NotImplemented
        if not other.t:
            return self
        out = dict(self.t)
        for m, c in other.t.items():
            if m in out:
                o = out[m]
                n = (o[0] + c[0], o[1] + c[1])
                if n[0] == 0 and n[1] == 0:
                    del out[m]
                else:
                    out[m] = n
            else:
                out[m] = c
        return P(out)

    __radd__ = __add__

    def __sub__(self, other):
        try:
            other = coerce(other)
        except Refuse:
            return NotImplemented
        return self + (-other)

    def __rsub__(self, other):
        return (-self) + other

    def __mul__(self, other):
        if isinstance(other, np.ndarray):
            return NotImplemented
        try:
            other = coerce(other)
        except Refuse:
            return NotImplemented
        if not self.t or not other.t:
            return P()
        out: dict = {}
        pending = []
        for m1, c1 in self.t.items():
            for m2, c2 in other.t.items():
                c = _cmul(c1, c2)
                if m1 == ():
                    m = m2
                    red = False
                elif m2 == ():
                    m = m1
                    red = False
                else:
                    m, red = _mmul(m1, m2)
                if red:
                    pending.append((m, c))
                    continue
                if m in out:
                    o = out[m]
                    n = (o[0] + c[0], o[1] + c[1])
                    if n[0] == 0 and n[1] == 0:
                        del out[m]
                    else:
                        out[m] = n
                else:
                    out[m] = c
        res = P(out)
        for m, c in pending:
            res = res + _reduce_monomial(m, c)
        return res

    __rmul__ = __mul__

    def __truediv__(self, other):
        try:
            other = coerce(other)
        except Refuse:
            return NotImplemented
        return self * other.inverse()

    def __rtruediv__(self, other):
        return coerce(other) * self.inverse()

    def inverse(self):
        if len(self.t) != 1:
            raise Refuse("division by a non-monomial symbolic scalar")
        (m, c), = self.t.items()
        n2 = c[0] * c[0] + c[1] * c[1]
        ci = (c[0] / n2, -c[1] / n2)
        res = P({(): ci})
        for a, e in m:
            if a in ATOMS.invertible:
                res = res * P({((a, -e),): (_ONE, _ZERO)})
            elif a in ATOMS.rules and ATOMS.rules[a].is_const():
                # a^2 = k  =>  a^-1 = a/k
                k = ATOMS.rules[a].t[()][0]
                inv = P({((a, 1),): (_ONE / k, _ZERO)})
                for _ in range(e):
                    res = res * inv
            else:
                raise Refuse(f"division by atom {ATOMS.names[a]} not declared non-zero")
        return res

    def __pow__(self, k):
        if isinstance(k, P) and k.is_const():
            k = k.const_value().real
        if isinstance(k, (float, np.floating)) and float(k) == int(k):
            k = int(k)
        if isinstance(k, (float, np.floating)) and float(k) == 0.5:
            return self.sqrt()
        if not isinstance(k, (int, np.integer)):
            raise Refuse("non-integer power")
        k = int(k)
        if k < 0:
            return self.inverse() ** (-k)
        res = P.const(1)
        base = self
        while k:
            if k & 1:
                res = res * base
            base = base * base if k > 1 else base
            k >>= 1
        return res

    # -- complex structure (all atoms are real)
    def conjugate(self):
        return P({m: (c[0], -c[1]) for m, c in self.t.items()})

    conj = conjugate

    @property
    def real(self):
        return P({m: (c[0], _ZERO) for m, c in self.t.items() if c[0] != 0})

    @property
    def imag(self):
        return P({m: (c[1], _ZERO) for m, c in self.t.items() if c[1] != 0})

    # -- elementary functions, called by numpy ufuncs on object arrays
    def sqrt(self):
        if not self.t:
            return self
        if len(self.t) != 1:
            return _sqrt_general(self)
        (m, c), = self.t.items()
        if c[1] != 0 or c[0] < 0:
            raise Refuse("sqrt of a non-positive coefficient")
        try:
            res = _sqrt_fraction(Fraction(c[0]))
        except Refuse:
            return _sqrt_general(self)
        out = []
        for a, e in m:
            if e % 2 or a not in ATOMS.invertible:
                return _sqrt_general(self)
            out.append((a, e // 2))
        return res * P({tuple(out): (_ONE, _ZERO)}) if out else res

    def exp(self):
        re = self.real
        im = self.imag
        if not re.is_zero():
            raise Refuse("exp of a real symbolic quantity")
        c, s = _trig(im)
        return c + P.I() * s

    def cos(self):
        _need_real(self)
        return _trig(self)[0]

    def sin(self):
        _need_real(self)
        return _trig(self)[1]

    def cosh(self):
        _need_real(self)
        return _hyp(self)[0]

    def sinh(self):
        _need_real(self)
        return _hyp(self)[1]

    # -- printing / evaluation
    def __repr__(self):
        if not self.t:
            return "0"
        parts = []
        for m, c in sorted(self.t.items(), key=lambda kv: kv[0]):
            cs = str(c[0]) if c[1] == 0 else (f"{c[1]}j" if c[0] == 0 else f"({c[0]}+{c[1]}j)")
            ms = "*".join(
                ATOMS.names[a] + (f"^{e}" if e != 1 else "") for a, e in m
            )
            parts.append(cs + ("*" + ms if ms else ""))
        return " + ".join(parts)

    def atoms(self):
        return {a for m in self.t for a, _ in m}

    def evalf(self, env: dict) -> complex:
        tot = 0j
        for m, c in self.t.items():
            v = complex(c[0], c[1])
            for a, e in m:
                v *= env[a] ** e
            tot += v
        return tot

    def degree(self):
        return max((sum(abs(e) for _, e in m) for m in self.t), default=0)


def _need_real(p: P):
    if not p.imag.is_zero():
        raise Refuse("trigonometric/hyperbolic function of a non-real argument")


def _mmul(m1, m2):
    d = dict(m1)
    red = False
    for a, e in m2:
        n = d.get(a, 0) + e
        if n == 0:
            del d[a]
        else:
            d[a] = n
    rules = ATOMS.rules
    for a, e in d.items():
        if a in rules and (e >= 2 or e < 0):
            red = True
            break
    return tuple(sorted(d.items())), red


def _reduce_monomial(m, c) -> P:
    """Normal form of c*m when some ruled atom has exponent >= 2 (or < 0)."""
    res = P({(): c})
    rest = []
    for a, e in m:
        if a in ATOMS.rules and (e >= 2 or e < 0):
            rule = ATOMS.rules[a]
            if e < 0:
                if not rule.is_const():
                    raise Refuse("negative power of a trigonometric atom")
                k = rule.t[()][0]
                inv = P({((a, 1),): (_ONE / k, _ZERO)})
                for _ in range(-e):
                    res = res * inv
                continue
            q, r = divmod(e, 2)
            for _ in range(q):
                res = res * rule
            if r:
                res = res * P({((a, 1),): (_ONE, _ZERO)})
        else:
            rest.append((a, e))
    if rest:
        res = res * P({tuple(rest): (_ONE, _ZERO)})
    return res


def _sqrt_fraction(fr: Fraction) -> P:
    def isq(n):
        r = math.isqrt(n)
        return r if r * r == n else None

    n, d = fr.numerator, fr.denominator
    # sqrt(n/d) = sqrt(n*d)/d
    nd = n * d
    r = isq(nd)
    if r is not None:
        return P.const(Fraction(r, d))
    if nd % 2 == 0:
        r = isq(nd // 2)
        if r is not None:
            return sqrt2() * Fraction(r, d)
    raise Refuse(f"sqrt({fr}) is not in Q(sqrt2)")


def sqrt2() -> P:
    i = ATOMS.get("sqrt2")
    if i not in ATOMS.rules:
        ATOMS.rules[i] = P.const(2)
    return P({((i, 1),): (_ONE, _ZERO)})


def _linear_terms(p: P):
    """p must be sum k_j * atom_j with integer k_j; returns [(atom, k)]."""
    out = []
    for m, c in p.t.items():
        if c[1] != 0:
            raise Refuse("non-real argument")
        if len(m) != 1 or m[0][1] != 1:
            raise Refuse(f"function argument is not linear in angle atoms: {p!r}")
        if c[0].denominator != 1:
            raise Refuse(f"non-integer multiple of an angle atom: {p!r}")
        out.append((m[0][0], int(c[0])))
    return out


def _pair(a: int, fn1: str, fn2: str, sign: int):
    """atoms fn1(a), fn2(a) with fn2^2 = sign*(1 - fn1^2) [cos/sin: +1; cosh/sinh: -1]."""
    base = ATOMS.names[a]
    i1 = ATOMS.get(f"{fn1}({base})", kind=(fn1, a))
    i2 = ATOMS.get(f"{fn2}({base})", kind=(fn2, a))
    if i2 not in ATOMS.rules:
        c2 = P({((i1, 2),): (_ONE, _ZERO)})
        ATOMS.rules[i2] = (P.const(1) - c2) if sign > 0 else (c2 - P.const(1))
    return P({((i1, 1),): (_ONE, _ZERO)}), P({((i2, 1),): (_ONE, _ZERO)})


def _trig(p: P):
    c, s = P.const(1), P.const(0)
    for a, k in _linear_terms(p):
        ca, sa = _pair(a, "cos", "sin", +1)
        if k < 0:
            sa = -sa
        for _ in range(abs(k)):
            c, s = c * ca - s * sa, s * ca + c * sa
    return c, s


def _hyp(p: P):
    c, s = P.const(1), P.const(0)
    for a, k in _linear_terms(p):
        ca, sa = _pair(a, "cosh", "sinh", -1)
        if k < 0:
            sa = -sa
        for _ in range(abs(k)):
            c, s = c * ca + s * sa, s * ca + c * sa
    return c, s


def hbar_free(p) -> bool:
    """No occurrence of sqrt_hbar, directly or inside the argument of an opaque atom."""
    bad = set(ATOMS.tainted)
    if "sqrt_hbar" in ATOMS.index:
        bad.add(ATOMS.index["sqrt_hbar"])
    return not (coerce(p).atoms() & bad)


def opaque(fn: str, arg, positive=False) -> "P":
    """Uninterpreted function application fn(arg) as an atom keyed by arg's normal form.
    Equal normal forms give the same atom (functionality); nothing else is assumed."""
    args = arg if isinstance(arg, (list, tuple)) else [arg]
    args = [coerce(a) for a in args]
    key = f"{fn}[" + " ; ".join(repr(a) for a in args) + "]"
    i = ATOMS.get(key, invertible=positive, kind=("opaque", fn))
    if not all(hbar_free(a) for a in args):
        ATOMS.tainted.add(i)
    return P({((i, 1),): (_ONE, _ZERO)})


def _sqrt_general(p: "P") -> "P":
    """sqrt(p) for a non-monomial p (assumed positive on the code's domain): even powers of
    positive atoms are pulled out exactly, the rest becomes the opaque atom sqrt[q]."""
    mins = {}
    for m in p.t:
        d = dict(m)
        for a in ATOMS.invertible:
            e = d.get(a, 0)
            mins[a] = e if a not in mins else min(mins[a], e)
    factor = {a: (e - (e % 2)) for a, e in mins.items() if (e - (e % 2)) != 0}
    if factor:
        inv = P({tuple(sorted((a, -e) for a, e in factor.items())): (_ONE, _ZERO)})
        q = p * inv
        half = P({tuple(sorted((a, e // 2) for a, e in factor.items())): (_ONE, _ZERO)})
    else:
        q, half = p, P.const(1)
    return half * opaque("sqrt", q, positive=True)


def det(M) -> "P":
    """Exact determinant by Laplace expansion along rows with memoised minors."""
    A = np.asarray(M, dtype=object)
    n = A.shape[0]
    if A.shape != (n, n):
        raise Refuse("det of a non-square array")
    A = [[coerce(A[i, j]) for j in range(n)] for i in range(n)]
    memo = {}

    def minor(r, cols):
        if r == n:
            return P.const(1)
        key = (r, cols)
        if key in memo:
            return memo[key]
        tot = P()
        sign = 1
        for k, c in enumerate(cols):
            e = A[r][c]
            if not e.is_zero():
                sub = minor(r + 1, cols[:k] + cols[k + 1:])
                tot = tot + (e * sub if sign > 0 else -(e * sub))
            sign = -sign
        memo[key] = tot
        return tot

    return minor(0, tuple(range(n)))


class _Linalg:
    def __getattr__(self, name):
        f = getattr(np.linalg, name)

        def g(*a, **k):
            if any(is_symbolic(x) for x in a):
                raise Refuse(f"np.linalg.{name} on symbolic values")
            return f(*a, **k)

        return g

    def det(self, M):
        if is_symbolic(M):
            return det(M)
        return np.linalg.det(M)


# --------------------------------------------------------------------------- arrays
class SymArray(np.ndarray):
    """numpy object array whose entries are `P`; numpy's own indexing/matmul semantics."""

    __array_priority__ = 100.0

    def __new__(cls, data):
        arr = np.empty(np.shape(data), dtype=object)
        src = np.asarray(data, dtype=object)
        for idx in np.ndindex(arr.shape):
            arr[idx] = coerce(src[idx])
        return arr.view(cls)

    @property
    def real(self):
        return _map(self, lambda x: coerce(x).real)

    @property
    def imag(self):
        return _map(self, lambda x: coerce(x).imag)

    def conj(self):
        return _map(self, lambda x: coerce(x).conjugate())

    conjugate = conj

    def astype(self, dtype, *a, **k):
        return self

    def __array_function__(self, func, types, args, kwargs):
        res = super().__array_function__(func, types, args, kwargs)
        return wrap(res)

    def __setitem__(self, key, value):
        if isinstance(value, np.ndarray) and value.dtype != object:
            value = value.astype(object)
        super().__setitem__(key, value)


def _map(arr, f):
    out = np.empty(arr.shape, dtype=object)
    for idx in np.ndindex(arr.shape):
        out[idx] = f(arr[idx])
    return out.view(SymArray)


def wrap(res):
    if isinstance(res, np.ndarray) and res.dtype == object and not isinstance(res, SymArray):
        if res.size and any(isinstance(x, P) for x in res.flat):
            return res.view(SymArray)
        return res
    if isinstance(res, tuple):
        return tuple(wrap(r) for r in res)
    if isinstance(res, list):
        return [wrap(r) for r in res]
    return res


def is_symbolic(x) -> bool:
    if isinstance(x, P):
        return True
    if isinstance(x, np.ndarray) and x.dtype == object:
        return any(isinstance(e, P) for e in x.flat)
    if isinstance(x, (list, tuple)):
        return any(is_symbolic(e) for e in x)
    return False


_PI_TABLE = {}


def _angle_const(x):
    """Exact (cos, sin) for floats that are bit-identical to k*pi/4."""
    if not _PI_TABLE:
        r2h = sqrt2() * Fraction(1, 2)
        vals = {0: (1, 0), 1: (r2h, r2h), 2: (0, 1), 3: (-r2h, r2h), 4: (-1, 0),
                5: (-r2h, -r2h), 6: (0, -1), 7: (r2h, -r2h)}
        for k in range(-8, 9):
            for f in {k * math.pi / 4, k * (math.pi / 4), float(k * np.pi / 4)}:
                c, s = vals[k % 8]
                _PI_TABLE[f] = (coerce(c), coerce(s))
        _PI_TABLE[math.pi / 2] = (coerce(0), coerce(1))
        _PI_TABLE[-math.pi / 2] = (coerce(0), coerce(-1))
    return _PI_TABLE.get(float(x))


class _VNP:
    """`connector.np` of the verification connector: numpy, with symbolic-aware wrappers."""

    def __getattr__(self, name):
        obj = getattr(np, name)
        if callable(obj) and not isinstance(obj, type):
            def f(*a, **k):
                return wrap(obj(*a, **k))
            f.__name__ = name
            return f
        return obj

    # array construction: dtype is ignored when an entry is symbolic
    def array(self, obj, dtype=None, **k):
        if is_symbolic(obj):
            return SymArray(np.array(obj, dtype=object))
        return np.array(obj, dtype=dtype, **k)

    def asarray(self, obj, dtype=None, **k):
        if isinstance(obj, SymArray):
            return obj
        return self.array(obj, dtype=dtype, **k)

    def _elem(self, x, meth, npf):
        if isinstance(x, P):
            return getattr(x, meth)()
        if isinstance(x, SymArray) or is_symbolic(x):
            return _map(np.asarray(x, dtype=object), lambda e: getattr(coerce(e), meth)())
        return None

    def exp(self, x):
        r = self._elem(x, "exp", np.exp)
        if r is not None:
            return r
        if isinstance(x, (complex, np.complexfloating)) and complex(x).real == 0:
            cs = _angle_const(complex(x).imag)
            if cs is not None:
                return cs[0] + P.I() * cs[1]
        return np.exp(x)

    def cos(self, x):
        r = self._elem(x, "cos", np.cos)
        if r is not None:
            return r
        if isinstance(x, (float, int, np.floating)):
            cs = _angle_const(x)
            if cs is not None:
                return cs[0]
        return np.cos(x)

    def sin(self, x):
        r = self._elem(x, "sin", np.sin)
        if r is not None:
            return r
        if isinstance(x, (float, int, np.floating)):
            cs = _angle_const(x)
            if cs is not None:
                return cs[1]
        return np.sin(x)

    def cosh(self, x):
        r = self._elem(x, "cosh", np.cosh)
        return r if r is not None else np.cosh(x)

    def sinh(self, x):
        r = self._elem(x, "sinh", np.sinh)
        return r if r is not None else np.sinh(x)

    def sqrt(self, x):
        r = self._elem(x, "sqrt", np.sqrt)
        if r is not None:
            return r
        return np.sqrt(x)

    def conj(self, x):
        if isinstance(x, P):
            return x.conjugate()
        if isinstance(x, np.ndarray) and x.dtype == object:
            return x.view(SymArray).conj()
        return np.conj(x)

    conjugate = conj

    def real(self, x):
        if isinstance(x, P) or isinstance(x, SymArray):
            return x.real
        return np.real(x)

    def imag(self, x):
        if isinstance(x, P) or isinstance(x, SymArray):
            return x.imag
        return np.imag(x)

    def isclose(self, *a, **k):
        if any(is_symbolic(x) for x in a):
            raise Refuse("isclose on symbolic values")
        return np.isclose(*a, **k)

    def allclose(self, a, b, **k):
        if is_symbolic(a) or is_symbolic(b):
            res = residual_entries(np.asarray(a, dtype=object) - np.asarray(b, dtype=object))
            if not res:
                return True
            if all(e.is_const() for _, e in res):
                return bool(np.allclose([abs(e.const_value()) for _, e in res], 0.0, **k))
            ATOMS.assumed.append("generic point: " + repr(res[0][1])[:80] + " != 0")
            return False
        return np.allclose(a, b, **k)

    linalg = _Linalg()


VNP = _VNP()


# --------------------------------------------------------------------------- residuals
def residual_entries(arr):
    """Non-zero normal forms among the entries of an array (or a scalar)."""
    if isinstance(arr, P):
        return [((), arr)] if not arr.is_zero() else []
    a = np.asarray(arr, dtype=object)
    out = []
    for idx in np.ndindex(a.shape):
        e = coerce(a[idx])
        if not e.is_zero():
            out.append((idx, e))
    return out


def random_env(atoms: set, rng) -> dict:
    """A real point consistent with the relations, for numeric replay of a residual."""
    env = {}
    todo = set(atoms)
    for a in list(todo):
        k = ATOMS.kind.get(a)
        if k:
            todo.add(k[1])
    base_val = {}
    for a in sorted(todo):
        if a in ATOMS.kind:
            continue
        name = ATOMS.names[a]
        if name == "sqrt2":
            env[a] = math.sqrt(2)
        elif a in ATOMS.invertible:
            env[a] = float(rng.uniform(0.5, 2.0))
        else:
            env[a] = float(rng.uniform(-1.5, 1.5))
        base_val[a] = env[a]
    for a in sorted(todo):
        k = ATOMS.kind.get(a)
        if k:
            env[a] = getattr(math, k[0])(base_val[k[1]])
    return env
