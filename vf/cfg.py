"""Exception-augmented control-flow graph of one Python function (DESIGN 2.2, `restores`).

Built backwards in continuation-passing style; `finally` bodies are cloned per exit kind.
Every node is one evaluation step (simple statement, loop/if test, iterator step); a node has
normal successors and, when it may raise, an exceptional successor (nearest handler / exit).
"""
from __future__ import annotations

import ast


class Node:
    __slots__ = ("id", "stmt", "kind", "succ", "exc", "label")

    def __init__(self, nid, stmt, kind, label=""):
        self.id = nid
        self.stmt = stmt
        self.kind = kind
        self.succ: list[Node] = []
        self.exc: Node | None = None
        self.label = label

    @property
    def lineno(self):
        return getattr(self.stmt, "lineno", None)

    def text(self):
        if self.stmt is None:
            return self.kind
        try:
            src = ast.unparse(self.stmt) if not isinstance(self.stmt, (ast.For, ast.While, ast.If, ast.With, ast.Try)) else self.label
        except Exception:
            src = self.label
        return src.splitlines()[0][:100] if src else self.kind

    def __repr__(self):
        return f"<{self.id}:{self.kind}:{self.text()}>"


class Ctx:
    __slots__ = ("exc", "ret", "brk", "cont")

    def __init__(self, exc, ret, brk=None, cont=None):
        self.exc, self.ret, self.brk, self.cont = exc, ret, brk, cont

    def with_(self, **kw):
        c = Ctx(self.exc, self.ret, self.brk, self.cont)
        for k, v in kw.items():
            setattr(c, k, v)
        return c


def _simple_name_or_const(e):
    return isinstance(e, (ast.Name, ast.Constant))


def may_raise(node: ast.AST, noraise_calls=()) -> bool:
    """Conservative: anything but plain moves between local names / private attribute stores."""
    if isinstance(node, ast.Assign):
        ok_t = all(
            isinstance(t, ast.Name)
            or (isinstance(t, ast.Attribute) and isinstance(t.value, ast.Name) and t.attr.startswith("_"))
            for t in node.targets
        )
        if ok_t and _expr_noraise(node.value, noraise_calls):
            return False
        return True
    if isinstance(node, (ast.Pass, ast.Break, ast.Continue)):
        return False
    if isinstance(node, ast.Return):
        return node.value is not None and not _expr_noraise(node.value, noraise_calls)
    if isinstance(node, ast.Expr):
        return not _expr_noraise(node.value, noraise_calls)
    if isinstance(node, ast.expr):
        return not _expr_noraise(node, noraise_calls)
    return True


def _expr_noraise(e, noraise_calls) -> bool:
    if _simple_name_or_const(e):
        return True
    if isinstance(e, ast.Tuple):
        return all(_expr_noraise(x, noraise_calls) for x in e.elts)
    if isinstance(e, ast.List):
        return all(_expr_noraise(x, noraise_calls) for x in e.elts)
    if isinstance(e, ast.Compare) and all(isinstance(o, (ast.Is, ast.IsNot)) for o in e.ops):
        return _expr_noraise(e.left, noraise_calls) and all(_expr_noraise(c, noraise_calls) for c in e.comparators)
    if isinstance(e, ast.BoolOp):
        return all(_expr_noraise(v, noraise_calls) for v in e.values)
    if isinstance(e, ast.UnaryOp) and isinstance(e.op, ast.Not):
        return _expr_noraise(e.operand, noraise_calls)
    if isinstance(e, ast.Call):
        try:
            name = ast.unparse(e.func)
        except Exception:
            return False
        if name in noraise_calls:
            return all(_expr_noraise(a, noraise_calls) for a in e.args) and all(
                _expr_noraise(k.value, noraise_calls) for k in e.keywords)
    return False


class CFG:
    def __init__(self, func: ast.FunctionDef, noraise_calls=("isinstance", "tuple", "callable")):
        self.func = func
        self.nodes: list[Node] = []
        self.noraise_calls = tuple(noraise_calls)
        self.exit_normal = self._new(None, "EXIT_NORMAL")
        self.exit_exc = self._new(None, "EXIT_EXC")
        ctx = Ctx(exc=self.exit_exc, ret=self.exit_normal)
        self.entry = self._block(func.body, self.exit_normal, ctx)

    def _new(self, stmt, kind, label=""):
        n = Node(len(self.nodes), stmt, kind, label)
        self.nodes.append(n)
        return n

    # statements[i:] then k
    def _block(self, stmts, k, ctx):
        for s in reversed(stmts):
            k = self._stmt(s, k, ctx)
        return k

    def _stmt(self, s, k, ctx):
        if isinstance(s, ast.If):
            n = self._new(s.test, "test", "if " + ast.unparse(s.test))
            n.succ = [self._block(s.body, k, ctx), self._block(s.orelse, k, ctx)]
            if may_raise(s.test, self.noraise_calls):
                n.exc = ctx.exc
            return n
        if isinstance(s, (ast.For, ast.AsyncFor)):
            it = self._new(s.iter, "iter", "for ... in " + ast.unparse(s.iter))
            it.exc = ctx.exc
            after = self._block(s.orelse, k, ctx) if s.orelse else k
            body = self._block(s.body, it, ctx.with_(brk=k, cont=it))
            it.succ = [body, after]
            return it
        if isinstance(s, ast.While):
            t = self._new(s.test, "test", "while " + ast.unparse(s.test))
            if may_raise(s.test, self.noraise_calls):
                t.exc = ctx.exc
            after = self._block(s.orelse, k, ctx) if s.orelse else k
            body = self._block(s.body, t, ctx.with_(brk=k, cont=t))
            t.succ = [body] if (isinstance(s.test, ast.Constant) and s.test.value is True) else [body, after]
            return t
        if isinstance(s, ast.Try):
            return self._try(s, k, ctx)
        if isinstance(s, (ast.With, ast.AsyncWith)):
            ent = self._new(s, "with-enter", "with " + ", ".join(ast.unparse(i.context_expr) for i in s.items))
            ent.exc = ctx.exc
            # __exit__ may swallow: exceptional flow of the body may also continue at k
            swallow = self._new(s, "with-exit-exc", "with-exit")
            swallow.succ = [k]
            swallow.exc = ctx.exc
            ent.succ = [self._block(s.body, k, ctx.with_(exc=swallow))]
            return ent
        if isinstance(s, ast.Return):
            n = self._new(s, "return")
            n.succ = [ctx.ret]
            if may_raise(s, self.noraise_calls):
                n.exc = ctx.exc
            return n
        if isinstance(s, ast.Raise):
            n = self._new(s, "raise")
            n.succ = []
            n.exc = ctx.exc
            return n
        if isinstance(s, ast.Break):
            n = self._new(s, "break")
            n.succ = [ctx.brk]
            return n
        if isinstance(s, ast.Continue):
            n = self._new(s, "continue")
            n.succ = [ctx.cont]
            return n
        if isinstance(s, (ast.FunctionDef, ast.AsyncFunctionDef, ast.ClassDef)):
            n = self._new(s, "def", f"def {s.name}")
            n.succ = [k]
            return n
        n = self._new(s, "stmt")
        n.succ = [k]
        if may_raise(s, self.noraise_calls):
            n.exc = ctx.exc
        return n

    def _try(self, s: ast.Try, k, ctx):
        def fin(cont):
            """entry of a fresh clone of the finally body continuing at `cont`."""
            if not s.finalbody:
                return cont
            return self._block(s.finalbody, cont, ctx)

        k_f = fin(k)
        outer = Ctx(
            exc=fin(ctx.exc),
            ret=fin(ctx.ret),
            brk=fin(ctx.brk) if ctx.brk is not None else None,
            cont=fin(ctx.cont) if ctx.cont is not None else None,
        )
        if s.handlers:
            disp = self._new(s, "except-dispatch", "except ...")
            catches_all = False
            for h in s.handlers:
                disp.succ.append(self._block(h.body, k_f, outer))
                if h.type is None or (isinstance(h.type, ast.Name) and h.type.id in ("BaseException",)):
                    catches_all = True
            if not catches_all:
                disp.exc = outer.exc
            body_exc = disp
        else:
            body_exc = outer.exc
        after_body = self._block(s.orelse, k_f, outer) if s.orelse else k_f
        return self._block(s.body, after_body, outer.with_(exc=body_exc))

    # ------------------------------------------------------------------ queries
    def escaping_paths(self, is_write, is_restore, limit=6):
        """Paths from (the normal successor of) a write node to an exit that avoid every restore
        node.  Returns a list of paths, each a list of Nodes; [] means the restore post-dominates."""
        out = []
        for w in self.nodes:
            if w.stmt is None or not is_write(w):
                continue
            for start in w.succ:
                seen = set()
                stack = [(start, [w])]
                while stack and len(out) < limit:
                    n, path = stack.pop()
                    if n is None or n.id in seen:
                        continue
                    seen.add(n.id)
                    if n.stmt is not None and is_restore(n):
                        continue
                    if n is self.exit_normal or n is self.exit_exc:
                        out.append(path + [n])
                        continue
                    for m in n.succ:
                        stack.append((m, path + [n]))
                    if n.exc is not None:
                        stack.append((n.exc, path + [n, Node(-1, None, "RAISES")]))
        return out


def find_function(tree: ast.Module, qualname: str) -> ast.FunctionDef:
    parts = qualname.split(".")
    body = tree.body
    node = None
    for p in parts:
        node = next((n for n in body if isinstance(n, (ast.FunctionDef, ast.ClassDef, ast.AsyncFunctionDef)) and n.name == p), None)
        if node is None:
            raise KeyError(qualname)
        body = node.body
    return node
