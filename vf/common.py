"""Shared plumbing: obligations, verdicts, evidence, known findings, replay files.

Exit codes (DESIGN 2.7): 0 held / 1 violation / 2 undecided / 3 checker broken.
"""
from __future__ import annotations

import hashlib
import json
import os
import subprocess
import sys
import time
import traceback

VERIF = os.path.dirname(os.path.dirname(os.path.abspath(__file__)))
REPO = os.environ.get("PIQUASSO_REPO", "/repo")
PY = "/venv/bin/python"

DISCHARGED = "discharged"
FAILED = "failed"          # refuted (solver sat / normal form non-zero / path found)
UNDECIDED = "undecided"
BROKEN = "broken"


class CheckerBroken(Exception):
    pass


def sha(text: str) -> str:
    return hashlib.sha256(text.encode()).hexdigest()[:16]


def tree_sha() -> str:
    try:
        head = subprocess.run(
            ["git", "-C", REPO, "rev-parse", "HEAD"], capture_output=True, text=True
        ).stdout.strip()
        diff = subprocess.run(
            ["git", "-C", REPO, "diff", "HEAD"], capture_output=True, text=True
        ).stdout
        return head[:12] + ("+" + sha(diff) if diff else "")
    except Exception:
        return "unknown"


class Obligation:
    __slots__ = ("name", "engine", "backend", "status", "seconds", "detail", "function")

    def __init__(self, name, engine, backend, status, seconds=0.0, detail=None, function=None):
        self.name = name
        self.engine = engine
        self.backend = backend
        self.status = status
        self.seconds = seconds
        self.detail = detail or {}
        self.function = function

    def to_json(self):
        return {
            "name": self.name,
            "engine": self.engine,
            "backend": self.backend,
            "status": self.status,
            "seconds": round(self.seconds, 4),
        }


class Run:
    """Collects everything one ./check invocation establishes about one property."""

    def __init__(self, pid: str, tier: str, seed: int):
        self.pid = pid
        self.tier = tier
        self.seed = seed
        self.t0 = time.time()
        self.obligations: list[Obligation] = []
        self.bounded: list[dict] = []
        self.functions: dict[str, dict] = {}
        self.assumptions: list[str] = []
        self.trusted_base: list[str] = []
        self.samples: list = []
        self.violations: list[dict] = []
        self.known_printed: list[str] = []
        self.undecided: list[str] = []
        self.broken: list[str] = []
        self.notes: list[str] = []
        self.vacuity_covers = 0
        self.selftest = {}
        self.level = "proof"
        self.known = load_known_findings(pid)

    # -- bookkeeping -------------------------------------------------------
    def assume(self, text: str):
        if text not in self.assumptions:
            self.assumptions.append(text)

    def trust(self, text: str):
        if text not in self.trusted_base:
            self.trusted_base.append(text)

    def function(self, qualname: str, source: str | None = None, **kw):
        ent = self.functions.setdefault(qualname, {})
        if source is not None:
            ent["source_sha"] = sha(source)
        for k, v in kw.items():
            if isinstance(v, int) and isinstance(ent.get(k), int):
                ent[k] += v
            else:
                ent[k] = v

    def sample(self, obj):
        if len(self.samples) < 12:
            self.samples.append(obj)

    def add(self, ob: Obligation):
        self.obligations.append(ob)
        return ob

    def discharged(self, name, engine, backend, seconds=0.0, function=None, sample=None):
        if sample is not None:
            self.sample({"obligation": name, "backend": backend, **sample})
        return self.add(Obligation(name, engine, backend, DISCHARGED, seconds, function=function))

    def undecided_ob(self, name, engine, backend, reason, seconds=0.0):
        self.undecided.append(f"{name}: {reason}")
        print(f"UNDECIDED property={self.pid} obligation={name} reason={reason}")
        return self.add(Obligation(name, engine, backend, UNDECIDED, seconds, {"reason": reason}))

    def broken_ob(self, name, reason):
        self.broken.append(f"{name}: {reason}")
        print(f"BROKEN property={self.pid} obligation={name} reason={reason}")

    def failed(self, name, engine, backend, *, what, counterexample=None, replay=None,
               reproduced=None, observed=None, solver_output=None, seconds=0.0,
               no_failing_input=False):
        """An obligation is refuted.  Known finding -> KNOWN-FINDING line; else VIOLATION."""
        ob = self.add(Obligation(name, engine, backend, FAILED, seconds))
        kf = match_known(self.known, name)
        if kf is not None:
            line = f"KNOWN-FINDING: property={self.pid} {kf['what']} [obligation {name}]"
            if line not in self.known_printed:
                self.known_printed.append(line)
                print(line)
            ob.status = "known-finding"
            return ob
        path = write_replay(self.pid, name, {
            "property": self.pid,
            "obligation": name,
            "engine": engine,
            "backend": backend,
            "tree_sha": tree_sha(),
            "what": what,
            "counterexample": counterexample,
            "replay": replay,
            "reproduced": reproduced,
            "observed": observed,
            "solver_output": solver_output,
        })
        tail = " no-failing-input-found" if (no_failing_input or not reproduced) else ""
        print(f"VIOLATION property={self.pid} replay={path}{tail}")
        print(f"  obligation: {name}\n  what: {what}")
        self.violations.append({"obligation": name, "replay": path, "what": what})
        return ob

    def bounded_result(self, name, *, domain, bound, evaluations, distinct, failures=0, note=None):
        self.bounded.append({
            "name": name, "domain": domain, "bound": bound, "evaluations": evaluations,
            "distinct": distinct, "failures": failures, **({"note": note} if note else {}),
        })

    # -- end of run --------------------------------------------------------
    def finish(self, checker_cmd: str) -> int:
        wall = time.time() - self.t0
        n_obl = len(self.obligations)
        n_dis = sum(1 for o in self.obligations if o.status == DISCHARGED)
        n_known = sum(1 for o in self.obligations if o.status == "known-finding")
        by_backend: dict[str, dict] = {}
        for o in self.obligations:
            b = by_backend.setdefault(o.backend, {"count": 0, "discharged": 0, "seconds": 0.0})
            b["count"] += 1
            b["discharged"] += o.status == DISCHARGED
            b["seconds"] = round(b["seconds"] + o.seconds, 3)
        if n_obl == 0 and self.level == "proof":
            self.broken_ob("zero-obligation-guard", "no obligations were generated")

        # stale known findings (listed as known, but nothing failed under that name)
        for kf in self.known:
            if kf.get("status") == "known" and not any(
                o.status == "known-finding" and _kf_matches(kf, o.name) for o in self.obligations
            ):
                if kf.get("tiers") and self.tier not in kf["tiers"]:
                    continue
                self.notes.append(f"stale known finding (no longer fails): {kf['obligation']}")
                print(f"NOTE property={self.pid} stale known finding: {kf['obligation']}")

        ev_total = sum(b["evaluations"] for b in self.bounded)
        ev_distinct = sum(b["distinct"] for b in self.bounded)
        coverage = {
            # the proved part: obligations outside known-finding carve-outs
            "obligations": n_obl - n_known,
            "discharged": n_dis,
            "checker_cmd": checker_cmd,
            "trusted_base": self.trusted_base,
            "samples": self.samples or [o.to_json() for o in self.obligations[:5]],
            "by_backend": by_backend,
            "functions_under_contract": self.functions,
            "bounded": self.bounded,
            "known_findings": self.known_printed,
            "undecided": self.undecided,
            "vacuity_covers": self.vacuity_covers,
            "obligation_list": [o.to_json() for o in self.obligations],
            "notes": self.notes,
            "tree_sha": tree_sha(),
        }
        if self.selftest:
            coverage["selftest"] = self.selftest
        if self.bounded or self.level != "proof":
            coverage["evaluations"] = max(ev_total, 1) if self.level != "proof" else ev_total
            coverage["distinct_nontrivial"] = ev_distinct
            coverage["rule"] = (
                "bounded stand-ins: run-time evaluation of the sidecar contract on the real "
                "function over the enumerated domain named in each 'bounded' entry; distinct = "
                "distinct inputs (hash of the canonical input), trivial inputs (dimension 0) skipped"
            )
        evidence = {
            "property_id": self.pid,
            "tier": self.tier,
            "seed": self.seed,
            "level": self.level,
            "coverage": coverage,
            "assumptions": self.assumptions,
            "wall_s": round(wall, 2),
            "violations": len(self.violations),
        }
        if self.broken:
            code = 3
        elif self.violations:
            code = 1
        elif self.undecided:
            code = 2
        else:
            code = 0
        evidence["coverage"]["exit_code"] = code
        if code == 3 or (self.level == "proof" and (n_obl - n_known < 1 or n_dis < 1)):
            # a broken / empty run is not evidence for a proof-level claim
            evidence["level"] = "other"
            evidence["coverage"]["explanation"] = ("checker broken or no obligation discharged in this run: "
                                                   + "; ".join(self.broken)[:500])
        write_evidence(self.pid, evidence)
        print(
            f"[{self.pid}] tier={self.tier} obligations={n_obl} discharged={n_dis} "
            f"known-findings={n_known} undecided={len(self.undecided)} "
            f"violations={len(self.violations)} bounded-stand-ins={len(self.bounded)} "
            f"wall={wall:.1f}s exit={code}"
        )
        return code


# -- known findings ---------------------------------------------------------
def load_known_findings(pid: str) -> list[dict]:
    path = os.path.join(VERIF, "known_findings.json")
    if not os.path.exists(path):
        return []
    with open(path) as f:
        data = json.load(f)
    return [e for e in data.get("findings", []) if e.get("property") == pid]


def _kf_matches(kf: dict, name: str) -> bool:
    pat = kf["obligation"]
    return name == pat


def match_known(known: list[dict], name: str):
    for kf in known:
        if kf.get("status") == "known" and _kf_matches(kf, name):
            return kf
    return None


# -- files ------------------------------------------------------------------
def write_replay(pid: str, obligation: str, payload: dict) -> str:
    d = os.path.join(os.environ.get("VF_REPLAY_DIR") or os.path.join(VERIF, "replay"), pid)
    os.makedirs(d, exist_ok=True)
    safe = "".join(c if c.isalnum() or c in "._-" else "_" for c in obligation)[:150]
    path = os.path.join(d, safe + ".json")
    with open(path, "w") as f:
        json.dump(payload, f, indent=1, default=str)
    return path


def write_evidence(pid: str, evidence: dict):
    d = os.environ.get("VF_EVIDENCE_DIR") or os.path.join(VERIF, "evidence")
    os.makedirs(d, exist_ok=True)
    try:
        import jsonschema

        with open("/root/.vp/EVIDENCE.schema.json") as f:
            schema = json.load(f)
        jsonschema.validate(evidence, schema)
    except ImportError:
        pass
    except FileNotFoundError:
        pass
    with open(os.path.join(d, pid + ".json"), "w") as f:
        json.dump(evidence, f, indent=1, default=str)
        f.write("\n")


def run_guarded(fn, run: Run, checker_cmd: str) -> int:
    try:
        fn(run)
    except CheckerBroken as e:
        run.broken_ob("checker", str(e))
    except Exception:
        traceback.print_exc()
        run.broken_ob("checker", "traceback: " + traceback.format_exc().splitlines()[-1])
    return run.finish(checker_cmd)


def read_source(relpath: str) -> str:
    with open(os.path.join(REPO, relpath)) as f:
        return f.read()
