"""Solver driver: SMT-LIB2 text -> z3-new / z3 4.8 / cvc5 through their CLIs.

A query asserts hypotheses and the NEGATED goal; `unsat` = obligation discharged,
`sat` = refuted (model returned), anything else = unknown.
"""
from __future__ import annotations

import os
import re
import subprocess
import tempfile
import time
from concurrent.futures import ThreadPoolExecutor

SOLVERS = {
    "z3-new": ["z3-new", "-smt2"],
    "z3-4.8": ["/usr/bin/z3", "-smt2"],
    "cvc5": ["/usr/bin/cvc5", "--lang=smt2", "--produce-models"],
}

FIRST_BUDGET = int(os.environ.get("VF_SMT_T1", "20"))
SECOND_BUDGET = int(os.environ.get("VF_SMT_T2", "120"))


class Result:
    __slots__ = ("verdict", "solver", "seconds", "output", "model")

    def __init__(self, verdict, solver, seconds, output, model=None):
        self.verdict = verdict
        self.solver = solver
        self.seconds = seconds
        self.output = output
        self.model = model


def _run(solver: str, text: str, timeout: int) -> Result:
    cmd = list(SOLVERS[solver])
    if solver.startswith("z3"):
        cmd += [f"-T:{timeout}"]
    else:
        cmd += [f"--tlimit={timeout * 1000}"]
    with tempfile.NamedTemporaryFile("w", suffix=".smt2", delete=False) as f:
        f.write(text)
        path = f.name
    t0 = time.time()
    try:
        p = subprocess.run(cmd + [path], capture_output=True, text=True, timeout=timeout + 10)
        out = p.stdout + p.stderr
    except subprocess.TimeoutExpired:
        out = "timeout"
    finally:
        os.unlink(path)
    dt = time.time() - t0
    first = out.strip().splitlines()[0].strip() if out.strip() else ""
    if first == "unsat":
        return Result("unsat", solver, dt, out)
    if first == "sat":
        return Result("sat", solver, dt, out, parse_model(out))
    return Result("unknown", solver, dt, out[:2000])


def parse_model(out: str) -> dict:
    """Very small parser for (define-fun name () Sort value) entries with scalar values."""
    model = {}
    for m in re.finditer(
        r"\(define-fun\s+(\S+)\s+\(\)\s+(Int|Real|Bool)\s+((?:\([^()]*(?:\([^()]*\)[^()]*)*\))|[^\s()]+)\)",
        out,
    ):
        name, sort, val = m.group(1), m.group(2), m.group(3).strip()
        model[name.strip("|")] = _val(val)
    return model


def _val(v: str):
    v = v.strip()
    if v in ("true", "false"):
        return v == "true"
    m = re.fullmatch(r"\(-\s+(.*)\)", v)
    if m:
        x = _val(m.group(1))
        return -x if not isinstance(x, str) else v
    m = re.fullmatch(r"\(/\s+(\S+)\s+(\S+)\)", v)
    if m:
        from fractions import Fraction

        try:
            return str(Fraction(int(float(m.group(1))), int(float(m.group(2)))))
        except Exception:
            return v
    try:
        return int(v)
    except ValueError:
        try:
            return float(v)
        except ValueError:
            return v


def solve(text: str, want_model: bool = True, order=("z3-new", "z3-4.8", "cvc5"),
          t1: int | None = None, t2: int | None = None) -> Result:
    """Try solvers in order with the first budget, then the remaining ones with the second."""
    t1 = t1 or FIRST_BUDGET
    t2 = t2 or SECOND_BUDGET
    tail = "(check-sat)\n" + ("(get-model)\n" if want_model else "")
    full = text + "\n" + tail
    total = 0.0
    last = None
    for s in order:
        r = _run(s, full, t1)
        total += r.seconds
        if r.verdict in ("unsat", "sat"):
            r.seconds = total
            return r
        last = r
    if t2 > t1:
        for s in order:
            r = _run(s, full, t2)
            total += r.seconds
            if r.verdict in ("unsat", "sat"):
                r.seconds = total
                return r
            last = r
    last.seconds = total
    return last


def solve_many(queries: list[tuple[str, str]], workers: int = 12, **kw) -> dict[str, Result]:
    """queries: (name, smt text).  Runs them in a pool; returns name -> Result."""
    out: dict[str, Result] = {}
    with ThreadPoolExecutor(max_workers=workers) as ex:
        futs = {name: ex.submit(solve, text, **kw) for name, text in queries}
        for name, f in futs.items():
            out[name] = f.result()
    return out
