"""Element-wise lifting of vectorised numpy code (numba-compiled array functions) to the scalar function that
computes ONE generic element, so that pyvc can verify it.  Mechanical AST rewrite of the real source, applied on
every run; anything outside the rules below raises Unsupported (-> the function is undecided, never passed).

Rules (what the extraction keeps / drops):
  R1  np.where(c, a, b)            ->  (a) if (c) else (b)       (both operands of np.where are pure expressions;
                                        an overflow in the operand that is NOT selected is harmless and not an obligation)
  R2  a | b, a & b  (boolean)      ->  a or b, a and b
  R3  np.ones(<shape>, dtype=np.intN)  -> __iN(1);  np.zeros(shape=<shape>, dtype=np.intN) -> __iN(0)
                                        the variable assigned is recorded as an array of machine width N; shapes are dropped
  R4  np.minimum / np.maximum      ->  min / max
  R5  every arithmetic operation (+ - * //) whose operands involve a lifted array value is wrapped in __i64(...):
      numpy/numba compute such temporaries in int64 and WRAP silently; the lifted code is verified under the stricter
      obligation that they never wrap.  An (augmented) assignment to a variable of recorded width N is wrapped in
      __iN(...): the stored value must fit the array's dtype.
  R6  <A>[..., e]  ->  <elem>[e],  <A>.shape[-1] -> len(<elem>)   for the parameters named in `last_axis`
      (the generic element is the 1-D slice along the last axis); <A>.shape[:-1] only occurs inside R3 shapes.
  R8  <e>.astype(np.intN)  ->  __iN(<e>)   (a narrowing conversion wraps silently in numpy; verified under the stricter
      obligation that the value fits)
  R7  <x>.shape (of an element-wise parameter) only occurs inside R3 shapes and is dropped with them.
Broadcasting between arrays of different shapes is not modelled: all element-wise values have the same (dropped) shape.
"""
from __future__ import annotations

import ast
import copy

from .pyvc import Unsupported

WIDTHS = {"int8": 8, "int16": 16, "int32": 32, "int64": 64}
ARITH = (ast.Add, ast.Sub, ast.Mult, ast.FloorDiv)


def _dtype_width(call):
    for kw in call.keywords:
        if kw.arg == "dtype":
            name = ast.unparse(kw.value).split(".")[-1]
            if name in WIDTHS:
                return WIDTHS[name]
            raise Unsupported(f"dtype {ast.unparse(kw.value)} of an array constructor")
    raise Unsupported("array constructor without an integer dtype")


class _Lift(ast.NodeTransformer):
    def __init__(self, elementwise, last_axis, array_callees):
        self.arrays = set(elementwise)            # names holding element-wise (array) values
        self.last_axis = dict(last_axis)          # array parameter -> name of its generic 1-D element
        self.width = {}                           # variable -> machine width of the array it names
        self.array_callees = set(array_callees)   # functions returning element-wise values

    # ---- helpers
    def is_array(self, e):
        for n in ast.walk(e):
            if isinstance(n, ast.Name) and n.id in self.arrays:
                return True
            if isinstance(n, ast.Call) and isinstance(n.func, ast.Name) and n.func.id in self.array_callees:
                return True
            if isinstance(n, ast.Subscript) and isinstance(n.value, ast.Name) and n.value.id in self.last_axis.values():
                return True
        return False

    def wrap(self, bits, e):
        return ast.Call(func=ast.Name(id=f"__i{bits}", ctx=ast.Load()), args=[e], keywords=[])

    # ---- expressions
    def visit_Call(self, node):
        fn = ast.unparse(node.func)
        if fn == "np.where":
            if len(node.args) != 3 or node.keywords:
                raise Unsupported("np.where with other than three positional arguments")
            c, a, b = (self.visit(x) for x in node.args)
            return ast.IfExp(test=c, body=a, orelse=b)
        if fn in ("np.ones", "np.zeros"):
            bits = _dtype_width(node)
            return self.wrap(bits, ast.Constant(value=1 if fn == "np.ones" else 0))
        if fn in ("np.minimum", "np.maximum"):
            if len(node.args) != 2 or node.keywords:
                raise Unsupported(fn)
            return ast.Call(func=ast.Name(id="min" if fn == "np.minimum" else "max", ctx=ast.Load()),
                            args=[self.visit(x) for x in node.args], keywords=[])
        if isinstance(node.func, ast.Attribute) and node.func.attr == "astype" and len(node.args) == 1 and not node.keywords:
            name = ast.unparse(node.args[0]).split(".")[-1]
            if name not in WIDTHS:
                raise Unsupported(f"astype({ast.unparse(node.args[0])})")
            return self.wrap(WIDTHS[name], self.visit(node.func.value))
        if fn.startswith("np."):
            raise Unsupported(f"numpy call {fn} is not covered by the lifting rules")
        return self.generic_visit(node)

    def visit_BinOp(self, node):
        was_array = self.is_array(node)
        if isinstance(node.op, (ast.BitOr, ast.BitAnd)):
            l, r = self.visit(node.left), self.visit(node.right)
            return ast.BoolOp(op=ast.Or() if isinstance(node.op, ast.BitOr) else ast.And(), values=[l, r])
        node = self.generic_visit(node)
        if was_array:
            if not isinstance(node.op, ARITH):
                raise Unsupported(f"array operator {type(node.op).__name__}")
            return self.wrap(64, node)
        return node

    def visit_Subscript(self, node):
        if isinstance(node.value, ast.Name) and node.value.id in self.last_axis:
            sl = node.slice
            if isinstance(sl, ast.Tuple) and len(sl.elts) == 2 and isinstance(sl.elts[0], ast.Constant) and sl.elts[0].value is Ellipsis:
                return ast.Subscript(value=ast.Name(id=self.last_axis[node.value.id], ctx=ast.Load()),
                                     slice=self.visit(sl.elts[1]), ctx=node.ctx)
            raise Unsupported(f"subscript of {node.value.id} other than [..., e]")
        if ast.unparse(node) in {f"{a}.shape[-1]" for a in self.last_axis}:
            a = node.value.value.id
            return ast.Call(func=ast.Name(id="len", ctx=ast.Load()), args=[ast.Name(id=self.last_axis[a], ctx=ast.Load())], keywords=[])
        return self.generic_visit(node)

    def visit_Attribute(self, node):
        if node.attr == "shape":
            raise Unsupported(f"use of {ast.unparse(node)} outside an array constructor's shape")
        return self.generic_visit(node)

    # ---- statements
    def visit_Assign(self, node):
        if len(node.targets) != 1 or not isinstance(node.targets[0], ast.Name):
            raise Unsupported("assignment target in lifted code")
        tgt = node.targets[0].id
        raw = node.value
        is_ctor = isinstance(raw, ast.Call) and ast.unparse(raw.func) in ("np.ones", "np.zeros")
        was_array = self.is_array(raw) or is_ctor
        value = self.visit(raw)
        if is_ctor:
            self.width[tgt] = _dtype_width(raw)
        elif was_array and tgt in self.width:
            # re-binding an array variable to a new (int64) temporary: it is no longer the dtype-N array
            del self.width[tgt]
        if was_array:
            self.arrays.add(tgt)
        return ast.copy_location(ast.Assign(targets=[ast.Name(id=tgt, ctx=ast.Store())], value=value), node)

    def visit_AugAssign(self, node):
        if not isinstance(node.target, ast.Name):
            raise Unsupported("augmented assignment target in lifted code")
        tgt = node.target.id
        if tgt not in self.arrays:
            return self.generic_visit(node)
        if not isinstance(node.op, ARITH):
            raise Unsupported(f"in-place array operator {type(node.op).__name__}")
        rhs = self.visit(node.value)
        val = ast.BinOp(left=ast.Name(id=tgt, ctx=ast.Load()), op=node.op, right=rhs)
        # in-place: the result is stored with the array's own dtype
        val = self.wrap(self.width.get(tgt, 64), val)
        return ast.copy_location(ast.Assign(targets=[ast.Name(id=tgt, ctx=ast.Store())], value=val), node)


def lift(func: ast.FunctionDef, elementwise=(), last_axis=None, array_callees=()):
    """-> (lifted FunctionDef, {variable: recorded array width})"""
    f = copy.deepcopy(func)
    f.decorator_list = []
    f.returns = None
    last_axis = last_axis or {}
    lt = _Lift(elementwise, last_axis, array_callees)
    # docstring is dropped
    body = [s for s in f.body if not (isinstance(s, ast.Expr) and isinstance(s.value, ast.Constant) and isinstance(s.value.value, str))]
    f.body = [lt.visit(s) for s in body]
    f.args = ast.arguments(posonlyargs=[], args=[ast.arg(arg=last_axis.get(a.arg, a.arg)) for a in func.args.args], kwonlyargs=[],
                           kw_defaults=[], defaults=[])
    ast.fix_missing_locations(f)
    return f, dict(lt.width)
