"""pyvc: Python AST -> verification conditions (DESIGN 2.1).

Forward symbolic execution of ONE function body, parsed from the real source file on every
run, against a sidecar contract.  Loops are cut by invariants, calls are replaced by callee
contracts, every side condition (index bounds, division, machine range, assert, post-condition)
becomes a named obligation = (hypotheses, goal) discharged as `unsat` of hyps & not goal.

Contract expressions are Python expressions evaluated by the same symbolic evaluator, with a few
spec-only functions: old(x), result, forall(lambda j: ..., lo, hi), exists(...), implies(a, b),
iff(a, b), ite(c, a, b), declared spec functions (uninterpreted) and `use(lemma, args...)` ghost
statements that add one ground instance of a named lemma.

Anything outside the supported subset raises `Unsupported` -> the function is *undecided*.
"""
from __future__ import annotations

import ast
import itertools
import os
import time

from . import smt
from .common import REPO, sha


class Unsupported(Exception):
    pass


class ContractError(Exception):
    pass


# ------------------------------------------------------------------------------ values
class SV:
    """symbolic value"""
    __slots__ = ("sort", "t", "extra")

    def __init__(self, sort, t, extra=None):
        self.sort = sort      # 'Int' 'Bool' 'Real' 'Val' 'Ref' 'None' | ('Seq', elem) | ('Arr2', elem) | ('Tuple',)
        self.t = t            # smt term (str) ; for Seq: (len, arr) ; for Arr2: (rows, cols, arr); Tuple: [SV]
        self.extra = extra

    def __repr__(self):
        return f"SV({self.sort},{self.t})"


def I(t):
    return SV("Int", t)


def B(t):
    return SV("Bool", t)


def const_int(n):
    return I(str(n) if n >= 0 else f"(- {-n})")


def smt_sort(sort):
    if isinstance(sort, tuple):
        if sort[0] == "Seq":
            return f"(Array Int {smt_sort(sort[1])})"
        if sort[0] == "Arr2":
            return f"(Array Int (Array Int {smt_sort(sort[1])}))"
    return {"Int": "Int", "Bool": "Bool", "Real": "Real", "Val": "Val", "Ref": "Int", "None": "Int"}[sort]


def AND(*ts):
    ts = [t for t in ts if t != "true"]
    if not ts:
        return "true"
    if len(ts) == 1:
        return ts[0]
    return "(and " + " ".join(ts) + ")"


def OR(*ts):
    ts = [t for t in ts if t != "false"]
    if not ts:
        return "false"
    if len(ts) == 1:
        return ts[0]
    return "(or " + " ".join(ts) + ")"


def NOT(t):
    if t == "true":
        return "false"
    if t == "false":
        return "true"
    return f"(not {t})"


def IMPLIES(a, b):
    if a == "true":
        return b
    return f"(=> {a} {b})"


class VC:
    __slots__ = ("name", "hyps", "goal", "kind", "lineno")

    def __init__(self, name, hyps, goal, kind, lineno=None):
        self.name, self.hyps, self.goal, self.kind, self.lineno = name, list(hyps), goal, kind, lineno


class Ctx:
    """global to one function verification: declarations, axioms, VCs"""

    def __init__(self, spec):
        self.decls: list[str] = []
        self.declared = set()
        self.axioms: list[str] = []
        self.vcs: list[VC] = []
        self.covers: list[tuple] = []
        self.counter = itertools.count()
        self.spec = spec          # SpecEnv
        self.names = {}

    def fresh(self, sort, hint="v"):
        hint = "".join(c if c.isalnum() or c == "_" else "_" for c in hint)
        n = self.names[hint] = self.names.get(hint, -1) + 1
        name = f"{hint}!{n}" if n else hint
        name = f"|{name}|" if "!" in name else name
        self.decls.append(f"(declare-fun {name} () {smt_sort(sort)})")
        return name

    def declare_fun(self, name, args, ret):
        if name in self.declared:
            return
        self.declared.add(name)
        self.decls.append(f"(declare-fun {name} ({' '.join(smt_sort(a) for a in args)}) {smt_sort(ret)})")


class SpecEnv:
    """spec functions and lemmas of one property"""

    def __init__(self, funs=None, lemmas=None, preds=None, defs=None):
        self.funs = funs or {}        # name -> ([arg sorts], ret sort)
        self.lemmas = lemmas or {}    # name -> dict(params=[(name, sort)], formula=str, lean=str)
        self.defs = defs or {}        # name -> (params, body expr str)  (macro-expanded spec definitions)


class State:
    __slots__ = ("store", "pc", "old", "ghost")

    def __init__(self, store=None, pc=None, old=None):
        self.store = dict(store or {})
        self.pc = list(pc or [])
        self.old = old if old is not None else {}

    def copy(self):
        s = State(self.store, self.pc, self.old)
        return s

    def assume(self, t):
        if t != "true":
            self.pc.append(t)


# ------------------------------------------------------------------------------ engine
class FunctionVerifier:
    def __init__(self, relpath, qualname, contract, spec: SpecEnv, callee_contracts=None, repo=None, func=None,
                 func_source=None):
        self.relpath = relpath
        self.qualname = qualname
        self.contract = contract
        self.spec = spec
        self.callees = callee_contracts or {}
        self.repo = repo or REPO
        if func is not None:
            # pre-translated body (cppvc): `func` is a Python FunctionDef generated from the clang AST
            self.func = func
            self.func_source = func_source or ast.unparse(func)
            self.source = self.func_source
        else:
            with open(os.path.join(self.repo, relpath)) as f:
                self.source = f.read()
            tree = ast.parse(self.source)
            from .cfg import find_function

            self.func = find_function(tree, qualname)
            self.func_source = ast.get_source_segment(self.source, self.func) or ""
        self.ctx = Ctx(spec)
        self.loop_ordinals = {}
        self._number_loops(self.func.body, "")
        self.int64 = bool(contract.get("int64"))
        self.paths = 0
        self.result_sv = None
        self.fid = f"{relpath}:{qualname}"

    # -- loops are keyed by ordinal in source order: "0", "1", "1.0" (nested)
    def _number_loops(self, body, prefix):
        k = 0
        for node in body:
            for loop, sub in self._loops_in(node):
                key = f"{prefix}{k}"
                self.loop_ordinals[id(loop)] = key
                self._number_loops(loop.body, key + ".")
                k += 1

    def _loops_in(self, node):
        if isinstance(node, (ast.For, ast.While)):
            yield node, None
            return
        for fld in ("body", "orelse", "finalbody", "handlers"):
            for ch in getattr(node, fld, []) or []:
                if isinstance(ch, ast.ExceptHandler):
                    for c2 in ch.body:
                        yield from self._loops_in(c2)
                elif isinstance(ch, ast.stmt):
                    yield from self._loops_in(ch)

    # ------------------------------------------------------------------ obligations
    def oblige(self, st: State, goal, kind, node=None, label=""):
        if goal == "true":
            return
        line = getattr(node, "lineno", None)
        n = len(self.ctx.vcs)
        name = f"{self.fid}/{kind}{('/' + label) if label else ''}@L{line}#{n}"
        self.ctx.vcs.append(VC(name, st.pc, goal, kind, line))

    def range_check(self, st, term, node, what="int64"):
        if self.int64:
            self.oblige(st, AND(f"(<= (- 9223372036854775808) {term})", f"(<= {term} 9223372036854775807)"),
                        "int64-range", node)

    # ------------------------------------------------------------------ expression evaluation
    def ev(self, e, st: State, spec=False) -> SV:
        m = getattr(self, "ev_" + type(e).__name__, None)
        if m is None:
            raise Unsupported(f"expression {type(e).__name__} at line {getattr(e, 'lineno', '?')}")
        return m(e, st, spec)

    def ev_Constant(self, e, st, spec):
        v = e.value
        if isinstance(v, bool):
            return B("true" if v else "false")
        if isinstance(v, int):
            return const_int(v)
        if v is None:
            return SV("None", "0")
        if isinstance(v, float):
            from fractions import Fraction

            fr = Fraction(v)
            return SV("Real", f"(/ {fr.numerator}.0 {fr.denominator}.0)" if fr >= 0 else f"(- (/ {-fr.numerator}.0 {fr.denominator}.0))")
        if isinstance(v, str):
            return SV("Str", v)
        raise Unsupported(f"constant {v!r}")

    def ev_Name(self, e, st, spec):
        if e.id in st.store:
            return st.store[e.id]
        if spec and e.id == "result":
            if self.result_sv is None:
                raise ContractError("result used outside ensures")
            return self.result_sv
        consts = self.contract.get("consts", {})
        if e.id in consts:
            return consts[e.id]
        raise Unsupported(f"unbound name {e.id} (line {getattr(e, 'lineno', '?')})")

    def ev_Tuple(self, e, st, spec):
        return SV(("Tuple",), [self.ev(x, st, spec) for x in e.elts])

    def ev_UnaryOp(self, e, st, spec):
        v = self.ev(e.operand, st, spec)
        if isinstance(e.op, ast.USub):
            self._num(v, e)
            r = SV(v.sort, f"(- {v.t})")
            if v.sort == "Int" and not spec:
                self.range_check(st, r.t, e)
            return r
        if isinstance(e.op, ast.UAdd):
            return v
        if isinstance(e.op, ast.Not):
            return B(NOT(self.truth(v, e)))
        raise Unsupported("unary op")

    def _num(self, v, e):
        if v.sort not in ("Int", "Real"):
            raise Unsupported(f"numeric operation on {v.sort} (line {getattr(e, 'lineno', '?')})")

    def truth(self, v: SV, e=None) -> str:
        if v.sort == "Bool":
            return v.t
        if v.sort == "Int":
            return f"(not (= {v.t} 0))"
        if v.sort == "Real":
            return f"(not (= {v.t} 0.0))"
        if v.sort == "None":
            return "false"
        if isinstance(v.sort, tuple) and v.sort[0] == "Seq":
            return f"(not (= {v.t[0]} 0))"
        if v.sort == ("Tuple",):
            return "true" if v.t else "false"
        if v.sort == "Val":
            self.ctx.declare_fun("truthy", ["Val"], "Bool")
            return f"(truthy {v.t})"
        raise Unsupported(f"truth value of {v.sort}")

    def coerce_pair(self, a: SV, b: SV):
        if a.sort == b.sort:
            return a, b
        if a.sort == "Int" and b.sort == "Real":
            return SV("Real", f"(to_real {a.t})"), b
        if a.sort == "Real" and b.sort == "Int":
            return a, SV("Real", f"(to_real {b.t})")
        if a.sort == "Bool" and b.sort == "Int":
            return I(f"(ite {a.t} 1 0)"), b
        if a.sort == "Int" and b.sort == "Bool":
            return a, I(f"(ite {b.t} 1 0)")
        return a, b

    def ev_BinOp(self, e, st, spec):
        a = self.ev(e.left, st, spec)
        b = self.ev(e.right, st, spec)
        return self.binop(e.op, a, b, st, e, spec)

    def binop(self, op, a, b, st, e, spec=False):
        if a.sort == "Val" or b.sort == "Val":
            return self.val_binop(op, a, b, st, e)
        a, b = self.coerce_pair(a, b)
        self._num(a, e)
        self._num(b, e)
        sort = a.sort
        if isinstance(op, ast.Add):
            r = SV(sort, f"(+ {a.t} {b.t})")
        elif isinstance(op, ast.Sub):
            r = SV(sort, f"(- {a.t} {b.t})")
        elif isinstance(op, ast.Mult):
            r = SV(sort, f"(* {a.t} {b.t})")
        elif isinstance(op, ast.FloorDiv):
            if sort != "Int":
                raise Unsupported("// on reals")
            if not spec:
                self.oblige(st, f"(not (= {b.t} 0))", "division-by-zero", e)
            r = I(f"(ite (> {b.t} 0) (div {a.t} {b.t}) (div (- {a.t}) (- {b.t})))")
        elif isinstance(op, ast.Mod):
            if sort != "Int":
                raise Unsupported("% on reals")
            if not spec:
                self.oblige(st, f"(not (= {b.t} 0))", "division-by-zero", e)
            q = f"(ite (> {b.t} 0) (div {a.t} {b.t}) (div (- {a.t}) (- {b.t})))"
            r = I(f"(- {a.t} (* {b.t} {q}))")
        elif isinstance(op, ast.Div):
            ar = a.t if sort == "Real" else f"(to_real {a.t})"
            br = b.t if sort == "Real" else f"(to_real {b.t})"
            if not spec:
                self.oblige(st, f"(not (= {br} 0.0))", "division-by-zero", e)
            r = SV("Real", f"(/ {ar} {br})")
        elif isinstance(op, ast.Pow):
            if b.t.isdigit() and int(b.t) <= 4:
                k = int(b.t)
                r = SV(sort, "1" if k == 0 else (a.t if k == 1 else "(* " + " ".join([a.t] * k) + ")"))
            else:
                raise Unsupported("** with non-constant exponent")
        else:
            raise Unsupported(f"binary operator {type(op).__name__}")
        if r.sort == "Int" and not spec:
            self.range_check(st, r.t, e)
        return r

    def val_binop(self, op, a, b, st, e):
        name = "binop_" + type(op).__name__
        self.ctx.declare_fun(name, ["Val", "Val"], "Val")
        return SV("Val", f"({name} {self.to_val(a)} {self.to_val(b)})")

    def to_val(self, v: SV):
        if v.sort == "Val":
            return v.t
        raise Unsupported(f"cannot inject {v.sort} into Val")

    def ev_BoolOp(self, e, st, spec):
        vals = []
        saved = len(st.pc)
        for x in e.values:
            v = self.ev(x, st, spec)
            t = self.truth(v, x)
            vals.append(t)
            # later operands are evaluated only if this one did not short-circuit
            st.pc.append(t if isinstance(e.op, ast.And) else NOT(t))
        del st.pc[saved:]
        return B(AND(*vals) if isinstance(e.op, ast.And) else OR(*vals))

    def ev_IfExp(self, e, st, spec):
        c = self.truth(self.ev(e.test, st, spec), e.test)
        if c == "true":
            return self.ev(e.body, st, spec)
        if c == "false":
            return self.ev(e.orelse, st, spec)
        st.pc.append(c)
        a = self.ev(e.body, st, spec)
        st.pc[-1] = NOT(c)
        b = self.ev(e.orelse, st, spec)
        st.pc.pop()
        a, b = self.coerce_pair(a, b)
        if a.sort != b.sort or isinstance(a.sort, tuple):
            raise Unsupported("conditional expression with non-scalar branches")
        return SV(a.sort, f"(ite {c} {a.t} {b.t})")

    def ev_Compare(self, e, st, spec):
        left = self.ev(e.left, st, spec)
        parts = []
        for op, right_e in zip(e.ops, e.comparators):
            right = self.ev(right_e, st, spec)
            parts.append(self.compare(op, left, right, e))
            left = right
        return B(AND(*parts))

    def compare(self, op, a, b, e):
        if isinstance(op, (ast.Is, ast.IsNot)):
            if a.sort == "None" or b.sort == "None":
                same = "true" if a.sort == b.sort else "false"
                return same if isinstance(op, ast.Is) else NOT(same)
            raise Unsupported("is on non-None")
        if a.sort == ("Tuple",) and b.sort == ("Tuple",):
            if len(a.t) != len(b.t):
                eq = "false"
            else:
                eq = AND(*[self.compare(ast.Eq(), x, y, e) for x, y in zip(a.t, b.t)])
            if isinstance(op, ast.Eq):
                return eq
            if isinstance(op, ast.NotEq):
                return NOT(eq)
            raise Unsupported("ordering of tuples")
        a, b = self.coerce_pair(a, b)
        if a.sort != b.sort:
            raise Unsupported(f"comparison of {a.sort} with {b.sort}")
        if isinstance(a.sort, tuple):
            raise Unsupported("comparison of sequences")
        sym = {ast.Eq: "=", ast.Lt: "<", ast.LtE: "<=", ast.Gt: ">", ast.GtE: ">="}.get(type(op))
        if isinstance(op, ast.NotEq):
            return f"(not (= {a.t} {b.t}))"
        if sym is None:
            raise Unsupported(f"comparison {type(op).__name__}")
        if a.sort == "Bool" and sym != "=":
            raise Unsupported("ordering of booleans")
        return f"({sym} {a.t} {b.t})"

    # ---- sequences
    def index_term(self, seq: SV, idx: SV, st, node, spec=False):
        """normalised index (Python negative indices) + bounds obligation"""
        ln = seq.t[0]
        if idx.sort != "Int":
            raise Unsupported("non-integer index")
        it = idx.t
        norm = it if self._is_nonneg_literal(it) else f"(ite (< {it} 0) (+ {it} {ln}) {it})"
        if not spec:
            self.oblige(st, AND(f"(<= 0 {norm})", f"(< {norm} {ln})"), "index-in-bounds", node)
        return norm

    @staticmethod
    def _is_nonneg_literal(t):
        return t.isdigit()

    def ev_Subscript(self, e, st, spec):
        base = self.ev(e.value, st, spec)
        if isinstance(base.sort, tuple) and base.sort[0] == "Seq":
            if isinstance(e.slice, ast.Slice):
                raise Unsupported("slice of a sequence")
            idx = self.ev(e.slice, st, spec)
            i = self.index_term(base, idx, st, e, spec)
            return SV(base.sort[1], f"(select {base.t[1]} {i})")
        if isinstance(base.sort, tuple) and base.sort[0] == "Arr2":
            if isinstance(e.slice, ast.Tuple) and len(e.slice.elts) == 2:
                r = self.ev(e.slice.elts[0], st, spec)
                c = self.ev(e.slice.elts[1], st, spec)
                rows, cols, arr = base.t
                ri = self.index_term(SV(("Seq", "Int"), (rows, None)), r, st, e, spec)
                ci = self.index_term(SV(("Seq", "Int"), (cols, None)), c, st, e, spec)
                return SV(base.sort[1], f"(select (select {arr} {ri}) {ci})")
            if spec and not isinstance(e.slice, (ast.Tuple, ast.Slice)):
                # a row of a 2-D array, as a sequence (specifications only)
                r = self.ev(e.slice, st, spec)
                rows, cols, arr = base.t
                ri = self.index_term(SV(("Seq", "Int"), (rows, None)), r, st, e, spec)
                return SV(("Seq", base.sort[1]), (cols, f"(select {arr} {ri})"))
            raise Unsupported("row access of a 2-D array")
        if base.sort == ("Tuple",):
            idx = self.ev(e.slice, st, spec)
            if idx.t.isdigit() and int(idx.t) < len(base.t):
                return base.t[int(idx.t)]
            raise Unsupported("symbolic index into a fixed tuple")
        raise Unsupported(f"subscript of {base.sort}")

    def ev_Attribute(self, e, st, spec):
        # arr.shape handled in Subscript of shape: support `x.shape[0]` via Tuple
        base = self.ev(e.value, st, spec)
        if e.attr == "shape" and isinstance(base.sort, tuple):
            if base.sort[0] == "Seq":
                return SV(("Tuple",), [I(base.t[0])])
            if base.sort[0] == "Arr2":
                return SV(("Tuple",), [I(base.t[0]), I(base.t[1])])
        if base.sort == "Ref":
            fld = self.contract.get("fields", {}).get(e.attr)
            if fld is None:
                raise Unsupported(f"field {e.attr} not declared in the contract")
            heap = st.store.get("$heap." + e.attr)
            if heap is None:
                raise Unsupported(f"heap for field {e.attr} missing")
            return SV(fld, f"(select {heap.t} {base.t})")
        raise Unsupported(f"attribute {e.attr} of {base.sort}")

    def ev_Lambda(self, e, st, spec):
        return SV("Lambda", e)

    # ---- calls
    def ev_Call(self, e, st, spec):
        fn = e.func
        name = fn.id if isinstance(fn, ast.Name) else (ast.unparse(fn))
        args = e.args
        if name == "len" and len(args) == 1:
            v = self.ev(args[0], st, spec)
            if isinstance(v.sort, tuple) and v.sort[0] == "Seq":
                return I(v.t[0])
            if isinstance(v.sort, tuple) and v.sort[0] == "Arr2":
                return I(v.t[0])
            if v.sort == ("Tuple",):
                return const_int(len(v.t))
            raise Unsupported("len of " + str(v.sort))
        if name in ("min", "max") and len(args) == 2:
            a, b = self.coerce_pair(self.ev(args[0], st, spec), self.ev(args[1], st, spec))
            op = "<=" if name == "min" else ">="
            return SV(a.sort, f"(ite ({op} {a.t} {b.t}) {a.t} {b.t})")
        if name == "abs" and len(args) == 1:
            a = self.ev(args[0], st, spec)
            zero = "0" if a.sort == "Int" else "0.0"
            return SV(a.sort, f"(ite (>= {a.t} {zero}) {a.t} (- {a.t}))")
        if name == "int" and len(args) == 1:
            a = self.ev(args[0], st, spec)
            if a.sort == "Int":
                return a
            if a.sort == "Bool":
                return I(f"(ite {a.t} 1 0)")
            if a.sort == "Real":
                # int() truncates toward zero
                return I(f"(ite (>= {a.t} 0.0) (to_int {a.t}) (- (to_int (- {a.t}))))")
            raise Unsupported("int() of " + str(a.sort))
        if name in ("__i8", "__i32", "__i64") and len(args) == 1:
            v = self.ev(args[0], st, spec)
            if v.sort == "Bool":
                v = I(f"(ite {v.t} 1 0)")
            bits = int(name[3:])
            lo, hi = -(1 << (bits - 1)), (1 << (bits - 1)) - 1
            if not spec:
                self.oblige(st, AND(f"(<= (- {-lo}) {v.t})", f"(<= {v.t} {hi})"), f"no-signed-overflow-int{bits}", e)
            return v
        if name in ("__u8", "__u32", "__u64") and len(args) == 1:
            v = self.ev(args[0], st, spec)
            if v.sort == "Bool":
                v = I(f"(ite {v.t} 1 0)")
            bits = int(name[3:])
            # unsigned arithmetic wraps by the C++ standard; the skeleton is verified under the STRICTER
            # obligation that it never does (a wrap in index/size arithmetic is a defect in these kernels),
            # which also keeps the value equal to the mathematical one
            if not spec:
                self.oblige(st, AND(f"(<= 0 {v.t})", f"(<= {v.t} {(1 << bits) - 1})"), f"no-unsigned-wraparound-uint{bits}", e)
            return v
        if name in ("__cdiv", "__cmod") and len(args) == 2:
            a, b = self.ev(args[0], st, spec), self.ev(args[1], st, spec)
            if not spec:
                self.oblige(st, f"(not (= {b.t} 0))", "division-by-zero", e)
            # C++ integer division truncates toward zero
            q = (f"(ite (>= {a.t} 0) (ite (> {b.t} 0) (div {a.t} {b.t}) (- (div {a.t} (- {b.t})))) "
                 f"(ite (> {b.t} 0) (- (div (- {a.t}) {b.t})) (div (- {a.t}) (- {b.t}))))")
            if name == "__cdiv":
                return I(q)
            return I(f"(- {a.t} (* {b.t} {q}))")
        if name == "__bit0" and len(args) == 1:
            a = self.ev(args[0], st, spec)
            return I(f"(mod {a.t} 2)")
        if name == "__xor01" and len(args) == 2:
            a, b = self.ev(args[0], st, spec), self.ev(args[1], st, spec)
            if not spec:
                self.oblige(st, AND(f"(<= 0 {a.t})", f"(<= {a.t} 1)", f"(<= 0 {b.t})", f"(<= {b.t} 1)"), "xor-operands-are-bits", e)
            return I(f"(ite (= {a.t} {b.t}) 0 1)")
        if name == "__uninit":
            return I(self.ctx.fresh("Int", "uninit"))
        if name == "__new_int_array" and len(args) == 1:
            n_ = self.ev(args[0], st, spec)
            if not spec:
                self.oblige(st, f"(>= {n_.t} 0)", "non-negative-array-size", e)
            return SV(("Seq", "Int"), (n_.t, self.ctx.fresh(("Seq", "Int"), "arr")))
        if name == "np.arange" and len(args) == 1:
            n_ = self.ev(args[0], st, spec)
            if not spec:
                self.oblige(st, f"(>= {n_.t} 0)", "non-negative-shape", e)
            arr = self.ctx.fresh(("Seq", "Int"), "arange")
            q = f"a_q{next(self.ctx.counter)}"
            st.assume(f"(forall (({q} Int)) (! (=> (and (<= 0 {q}) (< {q} {n_.t})) (= (select {arr} {q}) {q})) :pattern ((select {arr} {q}))))")
            return SV(("Seq", "Int"), (n_.t, arr))
        if name in ("np.empty", "np.zeros") and (args or any(k.arg == "shape" for k in e.keywords)):
            shp = self.ev(args[0] if args else next(k.value for k in e.keywords if k.arg == "shape"), st, spec)
            zero = name == "np.zeros"
            if shp.sort == "Int":
                if not spec:
                    self.oblige(st, f"(>= {shp.t} 0)", "non-negative-shape", e)
                arr = self.ctx.fresh(("Seq", "Int"), "arr")
                if zero:
                    q = f"z_q{next(self.ctx.counter)}"
                    st.assume(f"(forall (({q} Int)) (! (= (select {arr} {q}) 0) :pattern ((select {arr} {q}))))")
                return SV(("Seq", "Int"), (shp.t, arr))
            if shp.sort == ("Tuple",) and len(shp.t) == 2:
                r, c = shp.t
                if not spec:
                    self.oblige(st, AND(f"(>= {r.t} 0)", f"(>= {c.t} 0)"), "non-negative-shape", e)
                arr = self.ctx.fresh(("Arr2", "Int"), "arr2")
                if zero:
                    q, q2 = f"z_q{next(self.ctx.counter)}", f"z_q{next(self.ctx.counter)}"
                    st.assume(f"(forall (({q} Int) ({q2} Int)) (! (= (select (select {arr} {q}) {q2}) 0) :pattern ((select (select {arr} {q}) {q2}))))")
                return SV(("Arr2", "Int"), (r.t, c.t, arr))
            raise Unsupported("array constructor with this shape")
        if spec:
            r = self.spec_call(name, e, st)
            if r is not None:
                return r
        if name in self.callees:
            return self.call_contract(name, e, st, spec)
        if name in self.spec.funs and spec:
            return self.apply_fun(name, [self.ev(a, st, spec) for a in args])
        raise Unsupported(f"call to {name} without a contract (line {getattr(e, 'lineno', '?')})")

    def apply_fun(self, name, argv):
        sorts, ret = self.spec.funs[name]
        self.ctx.declare_fun(name, sorts, ret)
        ts = []
        for a, s in zip(argv, sorts):
            if isinstance(s, tuple) and s[0] == "Seq":
                ts.append(a.t[1])
            else:
                if a.sort == "Int" and s == "Real":
                    ts.append(f"(to_real {a.t})")
                else:
                    ts.append(a.t)
        if len(argv) != len(sorts):
            raise ContractError(f"{name}: arity")
        return SV(ret, f"({name} {' '.join(ts)})" if ts else name)

    def spec_call(self, name, e, st):
        args = e.args
        if name == "old":
            nm = args[0].id
            if nm not in st.old:
                raise ContractError(f"old({nm}) unknown")
            return st.old[nm]
        if name == "implies":
            a = self.truth(self.ev(args[0], st, True))
            st.pc.append(a)
            b = self.truth(self.ev(args[1], st, True))
            st.pc.pop()
            return B(IMPLIES(a, b))
        if name == "iff":
            a = self.truth(self.ev(args[0], st, True))
            b = self.truth(self.ev(args[1], st, True))
            return B(f"(= {a} {b})")
        if name == "ite":
            c = self.truth(self.ev(args[0], st, True))
            a, b = self.coerce_pair(self.ev(args[1], st, True), self.ev(args[2], st, True))
            return SV(a.sort, f"(ite {c} {a.t} {b.t})")
        if name in ("forall", "exists"):
            lam = args[0]
            if not isinstance(lam, ast.Lambda):
                raise ContractError("forall needs a lambda")
            names = [a.arg for a in lam.args.args]
            inner = st.copy()
            binders = []
            for nm in names:
                b = f"{nm}_q{next(self.ctx.counter)}"
                binders.append(b)
                inner.store[nm] = I(b)
            body = self.truth(self.ev(lam.body, inner, True))
            if len(args) == 3:
                lo = self.ev(args[1], st, True).t
                hi = self.ev(args[2], st, True).t
                rng = AND(*[AND(f"(<= {lo} {b})", f"(< {b} {hi})") for b in binders])
                body = IMPLIES(rng, body) if name == "forall" else AND(rng, body)
            bs = " ".join(f"({b} Int)" for b in binders)
            return B(f"({name} ({bs}) {body})")
        if name in self.spec.defs:
            params, body = self.spec.defs[name]
            inner = State({p: self.ev(a, st, True) for p, a in zip(params, args)}, st.pc, st.old)
            return self.ev(ast.parse(body, mode="eval").body, inner, True)
        if name in self.spec.funs:
            return self.apply_fun(name, [self.ev(a, st, True) for a in args])
        return None

    def call_contract(self, name, e, st, spec):
        c = self.callees[name]
        params = c["params"]
        pnames = [p for p, _ in params]
        amap = dict(zip(pnames, e.args))
        for kw in e.keywords:
            if kw.arg not in pnames or kw.arg in amap:
                raise Unsupported(f"call to {name}: unexpected keyword {kw.arg}")
            amap[kw.arg] = kw.value
        if set(amap) != set(pnames) or len(e.args) > len(pnames):
            raise Unsupported(f"call to {name}: arguments do not match the contract parameters")
        argv = [self.ev(amap[p], st, spec) for p in pnames]
        inner = State({p: v for (p, _), v in zip(params, argv)}, st.pc, {})
        saved_result = self.result_sv
        for k, req in enumerate(c.get("requires", [])):
            t = self.truth(self.ev(ast.parse(req, mode="eval").body, inner, True))
            if not spec:
                self.oblige(st, t, "callee-precondition", e, label=f"{name}.requires[{k}]")
        ret_sort = c.get("returns", "Int")
        r = self.fresh_value(ret_sort, f"{name}_result") if isinstance(ret_sort, tuple) else SV(ret_sort, self.ctx.fresh(ret_sort, f"{name}_result"))
        if isinstance(ret_sort, tuple):
            self.assume_wellformed(r, st)
        self.result_sv = r
        outs = []
        for oname_, osort in c.get("outs", []):
            ov = self.fresh_value(osort, f"{name}_{oname_}")
            self.assume_wellformed(ov, st)
            inner.store[oname_ + "_out"] = ov
            outs.append(ov)
        for ens in c.get("ensures", []):
            st.assume(self.truth(self.ev(ast.parse(ens, mode="eval").body, inner, True)))
        self.result_sv = saved_result
        if outs:
            return SV(("Tuple",), [r] + outs)
        return r

    # ------------------------------------------------------------------ statements
    def run(self):
        c = self.contract
        st = State()
        for (p, sort) in c["params"]:
            st.store[p] = self.fresh_value(sort, p)
        for p, sv in st.store.items():
            st.old[p] = sv
        for sv in list(st.store.values()):
            self.assume_wellformed(sv, st)
        for req in c.get("requires", []):
            st.assume(self.truth(self.ev(ast.parse(req, mode="eval").body, st, True)))
        self.ctx.covers.append((f"{self.fid}/cover/requires", list(st.pc)))
        self.ghost(st, "entry")
        self.block(self.func.body, st, self.k_fallthrough, LoopCtx(None, None))
        return self.ctx

    def fresh_value(self, sort, hint):
        if isinstance(sort, tuple) and sort[0] == "Seq":
            return SV(sort, (self.ctx.fresh("Int", hint + "_len"), self.ctx.fresh(sort, hint)))
        if isinstance(sort, tuple) and sort[0] == "Arr2":
            return SV(sort, (self.ctx.fresh("Int", hint + "_rows"), self.ctx.fresh("Int", hint + "_cols"),
                             self.ctx.fresh(sort, hint)))
        return SV(sort, self.ctx.fresh(sort, hint))

    def assume_wellformed(self, sv, st):
        if isinstance(sv.sort, tuple) and sv.sort[0] == "Seq":
            st.assume(f"(>= {sv.t[0]} 0)")
        if isinstance(sv.sort, tuple) and sv.sort[0] == "Arr2":
            st.assume(f"(>= {sv.t[0]} 0)")
            st.assume(f"(>= {sv.t[1]} 0)")

    def k_fallthrough(self, st):
        # falling off the end returns None
        self.do_return(SV("None", "0"), st, self.func)

    def do_return(self, value, st, node):
        self.paths += 1
        self.result_sv = value
        self.ghost(st, "exit")
        for k, ens in enumerate(self.contract.get("ensures", [])):
            t = self.truth(self.ev(ast.parse(ens, mode="eval").body, st, True))
            self.oblige(st, t, "postcondition", node, label=f"ensures[{k}]")
        self.result_sv = None

    def ghost(self, st, where):
        self.run_ghost(st, self.contract.get("ghost", {}).get(where, []), where)

    def run_ghost(self, st, cmds, where):
        for g in cmds:
            node = ast.parse(g, mode="eval").body
            if isinstance(node, ast.Call) and isinstance(node.func, ast.Name) and node.func.id == "let":
                st.store[node.args[0].value] = self.ev(node.args[1], st, True)
                continue
            if isinstance(node, ast.Call) and isinstance(node.func, ast.Name) and node.func.id == "use":
                lname = node.args[0].value
                lem = self.spec.lemmas[lname]
                argv = [self.ev(a, st, True) for a in node.args[1:]]
                inner = State({p: v for (p, _), v in zip(lem["params"], argv)}, [], st.old)
                t = self.truth(self.ev(ast.parse(lem["formula"], mode="eval").body, inner, True))
                st.assume(t)
                self.used_lemmas.add(lname)
            elif isinstance(node, ast.Call) and isinstance(node.func, ast.Name) and node.func.id == "check":
                t = self.truth(self.ev(node.args[0], st, True))
                self.oblige(st, t, "ghost-assert", None, label=where)
                st.assume(t)
            else:
                raise ContractError(f"ghost statement not understood: {g}")

    used_lemmas: set = set()

    def block(self, stmts, st, k, lc):
        if not stmts:
            return k(st)
        head, rest = stmts[0], stmts[1:]
        return self.stmt(head, st, lambda s: self.block(rest, s, k, lc), lc)

    def stmt(self, s, st, k, lc):
        m = getattr(self, "st_" + type(s).__name__, None)
        if m is None:
            raise Unsupported(f"statement {type(s).__name__} at line {s.lineno}")
        hooks_b = self.contract.get("ghost_before")
        hooks_a = self.contract.get("ghost_after")
        if hooks_b or hooks_a:
            try:
                text = ast.unparse(s)
            except Exception:
                text = ""
            for prefix, cmds in (hooks_b or {}).items():
                if text.startswith(prefix):
                    self.run_ghost(st, cmds, "before:" + prefix[:30])
            for prefix, cmds in (hooks_a or {}).items():
                if text.startswith(prefix):
                    k0 = k

                    def k(s2, cmds=cmds, prefix=prefix, k0=k0):
                        self.run_ghost(s2, cmds, "after:" + prefix[:30])
                        return k0(s2)
        return m(s, st, k, lc)

    def st_Pass(self, s, st, k, lc):
        return k(st)

    def st_Expr(self, s, st, k, lc):
        if isinstance(s.value, ast.Constant):
            return k(st)   # docstring
        self.ev(s.value, st)
        return k(st)

    def st_Assert(self, s, st, k, lc):
        t = self.truth(self.ev(s.test, st))
        label = s.msg.value.replace(" ", "_") if isinstance(s.msg, ast.Constant) and isinstance(s.msg.value, str) else ""
        self.oblige(st, t, "assert", s, label=label)
        st.assume(t)
        return k(st)

    def st_Return(self, s, st, k, lc):
        v = self.ev(s.value, st) if s.value is not None else SV("None", "0")
        return self.do_return(v, st, s)

    def st_Raise(self, s, st, k, lc):
        self.paths += 1
        exc = ast.unparse(s.exc.func if isinstance(s.exc, ast.Call) else s.exc) if s.exc else "?"
        allowed = self.contract.get("raises", {})
        if exc in allowed:
            cond = allowed[exc]
            t = self.truth(self.ev(ast.parse(cond, mode="eval").body, st, True))
            self.oblige(st, t, "raises-only-when", s, label=exc)
            return
        self.oblige(st, "false", "no-raise", s, label=exc)

    def assign_name(self, name, v, st):
        st.store[name] = v

    def st_Assign(self, s, st, k, lc):
        v = self.ev(s.value, st)
        for t in s.targets:
            self.assign_target(t, v, st, s)
        return k(st)

    def st_AnnAssign(self, s, st, k, lc):
        if s.value is not None:
            self.assign_target(s.target, self.ev(s.value, st), st, s)
        return k(st)

    def assign_target(self, t, v, st, node):
        if isinstance(t, ast.Name):
            st.store[t.id] = v
        elif isinstance(t, ast.Tuple):
            if v.sort != ("Tuple",) or len(v.t) != len(t.elts):
                raise Unsupported("tuple unpacking of a non-tuple")
            for x, y in zip(t.elts, v.t):
                self.assign_target(x, y, st, node)
        elif isinstance(t, ast.Subscript):
            base_name = t.value.id if isinstance(t.value, ast.Name) else None
            if base_name is None:
                raise Unsupported("store into a non-variable")
            base = st.store[base_name]
            if isinstance(base.sort, tuple) and base.sort[0] == "Seq":
                i = self.index_term(base, self.ev(t.slice, st), st, node)
                self.store_range(base.sort[1], v, st, node)
                st.store[base_name] = SV(base.sort, (base.t[0], f"(store {base.t[1]} {i} {v.t})"))
            elif isinstance(base.sort, tuple) and base.sort[0] == "Arr2" and isinstance(t.slice, ast.Tuple):
                rows, cols, arr = base.t
                r = self.index_term(SV(("Seq", "Int"), (rows, None)), self.ev(t.slice.elts[0], st), st, node)
                c = self.index_term(SV(("Seq", "Int"), (cols, None)), self.ev(t.slice.elts[1], st), st, node)
                self.store_range(base.sort[1], v, st, node)
                st.store[base_name] = SV(base.sort, (rows, cols, f"(store {arr} {r} (store (select {arr} {r}) {c} {v.t}))"))
            else:
                raise Unsupported("store into " + str(base.sort))
        else:
            raise Unsupported("assignment target " + type(t).__name__)

    def store_range(self, elem_sort, v, st, node):
        width = self.contract.get("array_width")
        if width and elem_sort == "Int":
            lo, hi = -(1 << (width - 1)), (1 << (width - 1)) - 1
            self.oblige(st, AND(f"(<= (- {-lo}) {v.t})", f"(<= {v.t} {hi})"), f"int{width}-store-range", node)

    def st_AugAssign(self, s, st, k, lc):
        load = ast.copy_location(ast.BinOp(left=self._as_load(s.target), op=s.op, right=s.value), s)
        v = self.ev(load, st)
        self.assign_target(s.target, v, st, s)
        return k(st)

    @staticmethod
    def _as_load(t):
        t2 = ast.parse(ast.unparse(t), mode="eval").body
        return ast.copy_location(t2, t)

    def st_If(self, s, st, k, lc):
        c = self.truth(self.ev(s.test, st), s.test)
        s1 = st.copy()
        s1.assume(c)
        self.block(s.body, s1, k, lc)
        s2 = st.copy()
        s2.assume(NOT(c))
        self.block(s.orelse, s2, k, lc)

    def st_Break(self, s, st, k, lc):
        return lc.on_break(st)

    def st_Continue(self, s, st, k, lc):
        return lc.on_continue(st)

    # ---- loops
    def modified_names(self, body):
        names = set()
        for n in ast.walk(ast.Module(body=body, type_ignores=[])):
            if isinstance(n, (ast.Assign, ast.AugAssign, ast.AnnAssign)):
                targets = n.targets if isinstance(n, ast.Assign) else [n.target]
                def stored(t):
                    # the variable written by a target: the name itself, or the base of a subscript / attribute chain;
                    # names that only occur inside an index expression (ret[a[i]] = ...) are read, not written
                    if isinstance(t, (ast.Tuple, ast.List)):
                        for el in t.elts:
                            stored(el)
                        return
                    if isinstance(t, ast.Starred):
                        return stored(t.value)
                    while isinstance(t, (ast.Subscript, ast.Attribute)):
                        t = t.value
                    if isinstance(t, ast.Name):
                        names.add(t.id)

                for t in targets:
                    stored(t)
            elif isinstance(n, (ast.For,)):
                for x in ast.walk(n.target):
                    if isinstance(x, ast.Name):
                        names.add(x.id)
        return names

    def havoc(self, st, names):
        for nm in names:
            if nm in st.store:
                old = st.store[nm]
                if old.sort == ("Tuple",) or old.sort in ("None", "Str", "Lambda"):
                    raise Unsupported(f"loop modifies non-scalar {nm}")
                if isinstance(old.sort, tuple) and old.sort[0] == "Seq":
                    st.store[nm] = SV(old.sort, (old.t[0], self.ctx.fresh(old.sort, nm)))   # length is not changed by stores
                elif isinstance(old.sort, tuple) and old.sort[0] == "Arr2":
                    st.store[nm] = SV(old.sort, (old.t[0], old.t[1], self.ctx.fresh(old.sort, nm)))
                else:
                    st.store[nm] = SV(old.sort, self.ctx.fresh(old.sort, nm))

    def loop_contract(self, s):
        key = self.loop_ordinals[id(s)]
        lcs = self.contract.get("loops", {})
        if key not in lcs:
            raise ContractError(f"loop[{key}] at line {s.lineno} has no invariant in the contract")
        return key, lcs[key]

    def inv_terms(self, lcon, st):
        return [self.truth(self.ev(ast.parse(i, mode="eval").body, st, True)) for i in lcon.get("invariant", [])]

    def st_For(self, s, st, k, lc):
        if s.orelse:
            raise Unsupported("for-else")
        it = s.iter
        if not (isinstance(it, ast.Call) and isinstance(it.func, ast.Name) and it.func.id == "range"):
            raise Unsupported(f"for over {ast.unparse(it)} (only range is supported)")
        if not isinstance(s.target, ast.Name):
            raise Unsupported("for target")
        var = s.target.id
        ra = [self.ev(a, st) for a in it.args]
        if len(ra) == 1:
            lo, hi, step = const_int(0), ra[0], 1
        elif len(ra) == 2:
            lo, hi, step = ra[0], ra[1], 1
        elif len(ra) == 3 and ra[2].t in ("1", "(- 1)"):
            lo, hi, step = ra[0], ra[1], (1 if ra[2].t == "1" else -1)
        else:
            raise Unsupported("range with a non-unit step")
        key, lcon = self.loop_contract(s)
        self.ghost_loop(st, key, "before")
        mods = self.modified_names(s.body) | {var}
        # the loop variable takes lo, lo+step, ...; "index state" = value about to be processed
        st0 = st.copy()
        st0.store[var] = lo
        if step == 1:
            bound0 = f"(<= {lo.t} {hi.t})"
        else:
            bound0 = f"(>= {lo.t} {hi.t})"
        # invariant on entry (with var = lo), only meaningful if the loop range is non-empty or not
        for j, t in enumerate(self.inv_terms(lcon, st0)):
            self.oblige(st, t, "invariant-on-entry", s, label=f"loop[{key}].inv[{j}]")
        # arbitrary iteration
        sth = st.copy()
        self.havoc(sth, mods - {var})
        sth.store[var] = I(self.ctx.fresh("Int", var))
        i = sth.store[var].t
        if step == 1:
            in_range = AND(f"(<= {lo.t} {i})", f"(< {i} {hi.t})")
            at_end = AND(f"(<= {lo.t} {i})", f"(>= {i} {hi.t})", f"(=> (<= {lo.t} {hi.t}) (= {i} {hi.t}))", f"(=> (> {lo.t} {hi.t}) (= {i} {lo.t}))")
        else:
            in_range = AND(f"(>= {lo.t} {i})", f"(> {i} {hi.t})")
            at_end = AND(f"(>= {lo.t} {i})", f"(<= {i} {hi.t})", f"(=> (>= {lo.t} {hi.t}) (= {i} {hi.t}))", f"(=> (< {lo.t} {hi.t}) (= {i} {lo.t}))")
        for t in self.inv_terms(lcon, sth):
            sth.assume(t)
        # body
        sb = sth.copy()
        sb.assume(in_range)
        self.ctx.covers.append((f"{self.fid}/cover/loop[{key}]", list(sb.pc)))
        self.ghost_loop(sb, key, "start")

        def after_body(s_end):
            self.ghost_loop(s_end, key, "end")
            s_next = s_end.copy()
            nxt = f"(+ {i} 1)" if step == 1 else f"(- {i} 1)"
            s_next.store[var] = I(nxt)
            for j, t in enumerate(self.inv_terms(lcon, s_next)):
                self.oblige(s_end, t, "invariant-preserved", s, label=f"loop[{key}].inv[{j}]")

        inner = LoopCtx(on_break=lambda sx: self._after_loop_break(sx, k, var), on_continue=after_body)
        self.block(s.body, sb, after_body, inner)
        # exit
        se = sth.copy()
        se.assume(at_end)
        # after a Python for loop the variable keeps its LAST value; we do not model reads of it
        se.store.pop(var, None)
        return k(se)

    def _after_loop_break(self, st, k, var):
        return k(st)

    def ghost_loop(self, st, key, where):
        self.ghost(st, f"loop[{key}].{where}")

    def st_While(self, s, st, k, lc):
        if s.orelse:
            raise Unsupported("while-else")
        key, lcon = self.loop_contract(s)
        mods = self.modified_names(s.body)
        self.ghost_loop(st, key, "before")
        for j, t in enumerate(self.inv_terms(lcon, st)):
            self.oblige(st, t, "invariant-on-entry", s, label=f"loop[{key}].inv[{j}]")
        sth = st.copy()
        self.havoc(sth, mods)
        for t in self.inv_terms(lcon, sth):
            sth.assume(t)
        dec = lcon.get("decreases")
        c = self.truth(self.ev(s.test, sth), s.test)
        sb = sth.copy()
        sb.assume(c)
        self.ctx.covers.append((f"{self.fid}/cover/loop[{key}]", list(sb.pc)))
        self.ghost_loop(sb, key, "start")
        dec0 = self.ev(ast.parse(dec, mode="eval").body, sb, True).t if dec else None

        def after_body(s_end):
            self.ghost_loop(s_end, key, "end")
            for j, t in enumerate(self.inv_terms(lcon, s_end)):
                self.oblige(s_end, t, "invariant-preserved", s, label=f"loop[{key}].inv[{j}]")
            if dec:
                d1 = self.ev(ast.parse(dec, mode="eval").body, s_end, True).t
                self.oblige(s_end, AND(f"(< {d1} {dec0})", f"(>= {dec0} 0)"), "decreases", s, label=f"loop[{key}]")

        inner = LoopCtx(on_break=lambda sx: k(sx), on_continue=after_body)
        self.block(s.body, sb, after_body, inner)
        se = sth.copy()
        se.assume(NOT(c))
        if not (isinstance(s.test, ast.Constant) and s.test.value is True):
            return k(se)


class LoopCtx:
    def __init__(self, on_break, on_continue):
        self.on_break = on_break
        self.on_continue = on_continue


# ------------------------------------------------------------------------------ discharge
PRELUDE = "(set-option :smt.mbqi false)\n(set-option :smt.auto-config false)\n"


def render(ctx: Ctx, hyps, goal, logic_prelude=""):
    lines = [logic_prelude] if logic_prelude else []
    if any("Val" in d for d in ctx.decls):
        lines.append("(declare-sort Val 0)")
    lines += ctx.decls
    lines += [f"(assert {a})" for a in ctx.axioms]
    lines += [f"(assert {h})" for h in hyps]
    if goal is not None:
        lines.append(f"(assert (not {goal}))")
    return "\n".join(lines)


def verify_function(run, relpath, qualname, contract, spec, callees=None, repo=None, group=None, workers=10, transform=None):
    """Generate and discharge all VCs of one function; register results on `run`.
    Returns (ctx, results) or None when undecided.  `transform` (FunctionDef -> FunctionDef) is a mechanical rewrite
    of the real function's AST applied before VC generation (e.g. vf.lift); the rewritten text is what is recorded."""
    fid = f"{relpath}:{qualname}"
    t0 = time.time()
    try:
        if transform is not None:
            with open(os.path.join(repo or REPO, relpath)) as f:
                from .cfg import find_function
                real = find_function(ast.parse(f.read()), qualname)
            lifted = transform(real)
            fv = FunctionVerifier(relpath, qualname, contract, spec, callees, repo, func=lifted, func_source=ast.unparse(lifted))
        else:
            fv = FunctionVerifier(relpath, qualname, contract, spec, callees, repo)
        fv.used_lemmas = set()
        ctx = fv.run()
    except (Unsupported, ContractError, KeyError, FileNotFoundError) as e:
        run.undecided_ob(f"{fid}/vcgen", "pyvc", "vcgen", f"{type(e).__name__}: {e}")
        return None
    run.function(fid, fv.func_source, paths=fv.paths, loops=len(fv.loop_ordinals), vcs=len(ctx.vcs))
    if not ctx.vcs:
        run.broken_ob(f"{fid}/zero-obligation-guard", "function under contract generated no obligations")
        return None
    queries = [(vc.name, render(ctx, vc.hyps, vc.goal)) for vc in ctx.vcs]
    results = smt.solve_many(queries, workers=workers)
    by_name = {vc.name: vc for vc in ctx.vcs}
    for name, r in results.items():
        vc = by_name[name]
        if r.verdict == "unsat":
            run.discharged(name, "pyvc", r.solver, r.seconds, function=fid,
                           sample={"kind": vc.kind, "goal": vc.goal[:200], "hypotheses": len(vc.hyps)})
        elif r.verdict == "sat":
            handler = contract.get("on_counterexample")
            info = handler(vc, r) if handler else {}
            run.failed(name, "pyvc", r.solver,
                       what=f"{vc.kind} at line {vc.lineno} of {fid} is refuted: goal {vc.goal[:160]}",
                       counterexample={"model": {k: v for k, v in list((r.model or {}).items())[:40]}},
                       replay=info.get("replay", {"kind": "smt-model", "function": fid}),
                       reproduced=info.get("reproduced"), observed=info.get("observed"),
                       solver_output=r.output[:3000], seconds=r.seconds)
        else:
            handler = contract.get("on_unknown")
            info = handler(vc, r) if handler else None
            if info and info.get("reproduced"):
                run.failed(name, "pyvc", r.solver, what=f"{vc.kind} at line {vc.lineno} of {fid}: solver undecided, "
                           f"bounded search found a failing input", counterexample=info.get("counterexample"),
                           replay=info.get("replay"), reproduced=True, observed=info.get("observed"),
                           solver_output=r.output[:1000], seconds=r.seconds)
            else:
                run.undecided_ob(name, "pyvc", r.solver, f"solver answered {r.verdict}: {r.output[:120]!r}", r.seconds)
    # vacuity: every cover must be satisfiable (or at least not refutable)
    cov_q = [(name, render(ctx, hyps, None)) for name, hyps in ctx.covers]
    cov = smt.solve_many(cov_q, workers=workers, want_model=False, t1=10, t2=10)
    for name, r in cov.items():
        if r.verdict == "unsat":
            run.broken_ob(name, "vacuity guard: the hypotheses of this context are contradictory")
        else:
            run.vacuity_covers += 1
    for l in fv.used_lemmas:
        run.trust(f"lemma {l} (Lean: {spec.lemmas[l].get('lean', '?')})")
    return ctx, results


# ------------------------------------------------------------------------------ fragments
class _AttrToName(ast.NodeTransformer):
    """mechanical abstraction of field reads/writes as variables: `branch.frequency` -> `branch__frequency`"""

    def __init__(self, mapping):
        self.mapping = mapping

    def visit_Attribute(self, node):
        src = ast.unparse(node)
        if src in self.mapping:
            return ast.copy_location(ast.Name(id=self.mapping[src], ctx=node.ctx), node)
        return self.generic_visit(node)


def verify_fragment(run, relpath, qualname, name, select, store_sorts, requires, ensures, attr_map=None,
                    spec=None, expect_statements=1):
    """Hoare triple {requires} S {ensures} for the statement(s) S selected from the REAL function
    body by `select(stmt) -> bool`; attribute expressions listed in attr_map are abstracted as
    variables.  Returns True when every VC was discharged."""
    fid = f"{relpath}:{qualname}"
    oname = f"{fid}/fragment/{name}"
    try:
        contract = {"params": [], "ensures": [], "fields": {}}
        fv = FunctionVerifier(relpath, qualname, contract, spec or SpecEnv())
        fv.used_lemmas = set()
        stmts = [n for n in ast.walk(fv.func) if isinstance(n, ast.stmt) and select(n)]
        if len(stmts) != expect_statements:
            run.undecided_ob(oname, "pyvc", "vcgen", f"contract no longer binds: {len(stmts)} statement(s) match the selector "
                             f"(expected {expect_statements})")
            return False
        st = State()
        for nm, sort in store_sorts.items():
            st.store[nm] = fv.fresh_value(sort, nm)
            st.old[nm] = st.store[nm]
        for r in requires:
            st.assume(fv.truth(fv.ev(ast.parse(r, mode="eval").body, st, True)))
        fv.ctx.covers.append((oname + "/cover", list(st.pc)))
        final = {}

        def k(s_end):
            final["st"] = s_end

        body = [(_AttrToName(attr_map or {}).visit(ast.parse(ast.unparse(s)).body[0])) for s in stmts]
        for b, orig in zip(body, stmts):
            ast.copy_location(b, orig)
            ast.fix_missing_locations(b)
        fv.block(body, st, k, LoopCtx(None, None))
        if "st" not in final:
            run.undecided_ob(oname, "pyvc", "vcgen", "fragment does not fall through")
            return False
        end = final["st"]
        for j, e in enumerate(ensures):
            t = fv.truth(fv.ev(ast.parse(e, mode="eval").body, end, True))
            fv.ctx.vcs.append(VC(f"{oname}/ensures[{j}]", end.pc, t, "postcondition", stmts[0].lineno))
    except (Unsupported, ContractError, KeyError) as e:
        run.undecided_ob(oname, "pyvc", "vcgen", f"{type(e).__name__}: {e}")
        return False
    ctx = fv.ctx
    run.function(fid, fv.func_source)
    ok = True
    results = smt.solve_many([(vc.name, render(ctx, vc.hyps, vc.goal)) for vc in ctx.vcs], workers=6)
    for vc in ctx.vcs:
        r = results[vc.name]
        nm = vc.name if vc.name.startswith(oname) else f"{oname}/{vc.kind}@L{vc.lineno}"
        if r.verdict == "unsat":
            run.discharged(nm, "pyvc", r.solver, r.seconds, function=fid,
                           sample={"statement": ast.unparse(stmts[0])[:120], "goal": vc.goal[:160]})
        elif r.verdict == "sat":
            ok = False
            run.failed(nm, "pyvc", r.solver, what=f"statement `{ast.unparse(stmts[0])[:100]}` of {fid} does not establish "
                       f"its post-condition: {vc.goal[:140]}", counterexample={"model": r.model},
                       replay={"kind": "smt-model", "function": fid}, reproduced=None, solver_output=r.output[:2000],
                       seconds=r.seconds)
        else:
            ok = False
            run.undecided_ob(nm, "pyvc", r.solver, f"solver answered {r.verdict}", r.seconds)
    for cname, hyps in ctx.covers:
        r = smt.solve(render(ctx, hyps, None), want_model=False, t1=10, t2=10)
        if r.verdict == "unsat":
            run.broken_ob(cname, "vacuity guard: contradictory pre-condition")
        else:
            run.vacuity_covers += 1
    return ok
