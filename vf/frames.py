"""frames: modifies-/reads-clauses decided on the AST of the real source (DESIGN 2.2).

For every function of the analysed package the engine infers the *strongest modifies clause*
(the set of writes to locations reachable from its parameters, directly or through callees'
summaries) by a flow-insensitive provenance analysis, and the set of reads/writes of
process-global random state.  A contract then bounds these sets at chosen functions.

Over-approximation rules (each can only add writes, never hide one):
  * provenance is sticky: attributes, items, slices, views, shallow copies, method results and
    unknown call results of a caller-owned value are caller-owned;
  * a value is fresh only when produced by a literal, arithmetic, a constructor/`copy`/
    `deepcopy`/array-constructor from the FRESH tables below;
  * method calls are resolved by name over all analysed classes (union of their summaries);
  * mutating container/array methods (`append`, `update`, `sort`, `fill`, ...) on a caller-owned
    receiver are writes.
"""
from __future__ import annotations

import ast
import os
from collections import defaultdict

MUTATING_METHODS = {
    "append", "extend", "insert", "remove", "pop", "clear", "sort", "reverse", "update",
    "setdefault", "popitem", "add", "discard", "fill", "itemset", "put", "resize", "partition",
    "setflags", "__setitem__", "__delitem__", "__setattr__", "__iadd__", "__imul__", "shuffle",
}
# call results that are fresh objects (do not alias their arguments)
FRESH_FUNCS = {
    "copy.deepcopy", "deepcopy", "np.array", "np.copy", "np.zeros", "np.ones", "np.empty", "np.identity",
    "np.eye", "np.zeros_like", "np.ones_like", "np.empty_like", "np.arange", "np.linspace", "np.concatenate",
    "np.block", "np.stack", "np.vstack", "np.hstack", "np.kron", "np.outer", "np.dot", "np.matmul", "np.einsum",
    "np.sqrt", "np.exp", "np.cos", "np.sin", "np.cosh", "np.sinh", "np.tanh", "np.abs",
    "np.conj", "np.conjugate", "np.sum", "np.prod", "np.trace", "np.diag", "np.delete", "np.where", "np.isclose",
    "np.allclose", "np.all", "np.any", "np.linalg.inv", "np.linalg.det", "np.linalg.eigvals", "np.linalg.norm",
    "np.power", "np.round", "np.floor", "np.log", "np.cumsum", "np.tile", "np.repeat", "np.random.default_rng",
    "len", "int", "float", "complex", "str", "bool", "repr", "abs", "sum", "min", "max", "round", "range", "hash",
    "isinstance", "issubclass", "callable", "hasattr", "type", "id", "any", "all", "Fraction", "format",
    "scipy.linalg.block_diag", "scipy.linalg.expm", "scipy.linalg.sqrtm", "factorial", "partial",
}
# numpy functions whose result MAY BE (a view of) their first argument: np.asarray returns the argument itself when no
# conversion is needed, reshape/ravel/squeeze/transpose/real/imag/... return views
ALIASING_NP = {
    "asarray", "asanyarray", "ascontiguousarray", "asfortranarray", "reshape", "ravel", "squeeze", "transpose", "atleast_1d",
    "atleast_2d", "atleast_3d", "expand_dims", "moveaxis", "swapaxes", "rollaxis", "broadcast_to", "broadcast_arrays", "real", "imag",
    "diagonal", "split", "array_split", "hsplit", "vsplit", "flip", "fliplr", "flipud", "rot90", "triu_indices_from", "nan_to_num",
    "require", "asarray_chkfinite", "view",
}
FRESH_METHODS = {
    "copy", "deepcopy", "astype", "tolist", "sum", "prod", "dot", "conj", "conjugate", "trace", "mean", "all", "any",
    "max", "min", "item", "count", "index", "format", "join", "keys", "__repr__", "__str__", "__len__", "round",
    "is_integer", "startswith", "endswith",
}
GLOBAL_RNG_OK = {"default_rng", "Generator", "SeedSequence", "PCG64", "RandomState", "BitGenerator", "Random", "SystemRandom"}


class Write:
    __slots__ = ("root", "path", "kind", "lineno", "text", "via")

    def __init__(self, root, path, kind, lineno, text, via=None):
        self.root, self.path, self.kind, self.lineno, self.text, self.via = root, path, kind, lineno, text, via

    def key(self):
        return (self.root, self.path, self.kind, self.via)

    def to_json(self):
        return {"root": self.root, "path": self.path, "kind": self.kind, "line": self.lineno,
                "text": self.text[:140], **({"via": self.via} if self.via else {})}


class Func:
    def __init__(self, module, relpath, qualname, node, cls):
        self.module = module
        self.relpath = relpath
        self.qualname = qualname
        self.node = node
        self.cls = cls
        a = node.args
        self.params = [x.arg for x in a.posonlyargs + a.args] + ([a.vararg.arg] if a.vararg else []) + \
            [x.arg for x in a.kwonlyargs] + ([a.kwarg.arg] if a.kwarg else [])
        self.writes: dict[tuple, Write] = {}
        self.captures: dict[tuple, dict] = {}
        self.rng: list[dict] = []
        self.calls: set[str] = set()       # resolved callee ids
        self.unresolved: set[str] = set()
        self.returns: set[str] = set()      # params (or <cached>) the return value may alias
        self.opaque_return = False

    @property
    def id(self):
        return f"{self.relpath}:{self.qualname}"


class Analysis:
    def __init__(self, repo, package="piquasso", fresh_calls=None, new_calls=None):
        self.repo = repo
        # contract-declared calls that construct a new object possibly holding their arguments
        self.new_calls = new_calls or {}
        # contract-declared calls whose result is a fresh object: {function id: {callee source text}}
        self.fresh_calls = fresh_calls or {}
        self.cached: set[str] = set()   # names bound to lru_cache'd callables
        self.setters: dict[str, list] = defaultdict(list)   # property name -> setter functions
        self.funcs: dict[str, Func] = {}
        self.by_name: dict[str, list[Func]] = defaultdict(list)       # bare function name -> funcs
        self.methods: dict[str, list[Func]] = defaultdict(list)       # method name -> funcs
        self.module_imports: dict[str, dict[str, str]] = {}           # relpath -> local name -> dotted
        self.module_funcs: dict[str, dict[str, Func]] = defaultdict(dict)
        self.sources: dict[str, str] = {}
        self.trees: dict[str, ast.Module] = {}
        for root, _, files in os.walk(os.path.join(repo, package)):
            for fn in files:
                if fn.endswith(".py"):
                    self._load(os.path.relpath(os.path.join(root, fn), repo))
        self._fixpoint()

    # ------------------------------------------------------------------ loading
    def _load(self, relpath):
        with open(os.path.join(self.repo, relpath)) as f:
            src = f.read()
        try:
            tree = ast.parse(src)
        except SyntaxError:
            return
        self.sources[relpath] = src
        self.trees[relpath] = tree
        imports = {}
        for n in ast.walk(tree):
            if isinstance(n, ast.Import):
                for a in n.names:
                    imports[a.asname or a.name.split(".")[0]] = a.name if a.asname else a.name.split(".")[0]
            elif isinstance(n, ast.ImportFrom) and n.module:
                for a in n.names:
                    imports[a.asname or a.name] = f"{n.module}.{a.name}"
        self.module_imports[relpath] = imports
        module = relpath[:-3].replace("/", ".")
        for n in ast.walk(tree):
            if isinstance(n, (ast.FunctionDef, ast.AsyncFunctionDef)):
                for d in n.decorator_list:
                    if _is_cache_expr(d):
                        self.cached.add(n.name)
            elif isinstance(n, ast.Assign) and isinstance(n.value, ast.Call) and isinstance(n.value.func, ast.Call) \
                    and _is_cache_expr(n.value.func):
                for t in n.targets:
                    if isinstance(t, ast.Name):
                        self.cached.add(t.id)
            elif isinstance(n, ast.Assign) and isinstance(n.value, ast.Call) and _is_cache_expr(n.value.func) \
                    and n.value.args and not n.value.keywords and isinstance(n.value.args[0], ast.Name):
                for t in n.targets:
                    if isinstance(t, ast.Name):
                        self.cached.add(t.id)

        def visit(body, prefix, cls):
            for n in body:
                if isinstance(n, (ast.FunctionDef, ast.AsyncFunctionDef)):
                    is_setter = any(isinstance(d, ast.Attribute) and d.attr == "setter" for d in n.decorator_list)
                    f = Func(module, relpath, prefix + n.name + (".setter" if is_setter else ""), n, cls)
                    self.funcs[f.id] = f
                    if is_setter:
                        self.setters[n.name].append(f)
                        visit(n.body, prefix + n.name + ".setter.", None if cls is None else cls)
                        continue
                    if cls is None and not prefix:
                        self.module_funcs[relpath][n.name] = f
                        self.by_name[n.name].append(f)
                    elif cls is not None:
                        self.methods[n.name].append(f)
                    visit(n.body, prefix + n.name + ".", None if cls is None else cls)
                elif isinstance(n, ast.ClassDef):
                    visit(n.body, prefix + n.name + ".", n.name)

        visit(tree.body, "", None)

    # ------------------------------------------------------------------ per function
    def _dotted(self, e):
        if isinstance(e, ast.Name):
            return e.id
        if isinstance(e, ast.Attribute):
            b = self._dotted(e.value)
            return None if b is None else f"{b}.{e.attr}"
        return None

    def _resolve(self, f: Func, call: ast.Call):
        """-> list of (callee Func, receiver expr or None)"""
        fn = call.func
        if isinstance(fn, ast.Name):
            name = fn.id
            loc = self.module_funcs[f.relpath].get(name)
            if loc is not None:
                return [(loc, None)]
            dotted = self.module_imports[f.relpath].get(name)
            if dotted and dotted.startswith("piquasso"):
                cands = [g for g in self.by_name.get(dotted.split(".")[-1], [])
                         if dotted.startswith(g.module) or g.module.endswith(dotted.rsplit(".", 1)[0].lstrip("."))]
                if cands:
                    return [(g, None) for g in cands]
                # class constructor
                init = [g for g in self.methods.get("__init__", []) if g.cls == dotted.split(".")[-1]]
                return [(g, "<new>") for g in init]
            init = [g for g in self.methods.get("__init__", []) if g.cls == name]
            if init:
                return [(g, "<new>") for g in init]
            return []
        if isinstance(fn, ast.Attribute):
            m = fn.attr
            cands = self.methods.get(m, [])
            if isinstance(fn.value, ast.Name) and fn.value.id in ("self", "cls") and f.cls:
                own = [g for g in cands if g.cls == f.cls]
                if own:
                    return [(g, fn.value) for g in own]
            if isinstance(fn.value, ast.Name):
                # ClassName.method / module.function
                byc = [g for g in cands if g.cls == fn.value.id]
                if byc:
                    return [(g, None if _is_static(g) else fn.value) for g in byc]
                dotted = self.module_imports[f.relpath].get(fn.value.id)
                if dotted and dotted.startswith("piquasso"):
                    mod = [g for g in self.by_name.get(m, []) if g.module == dotted]
                    if mod:
                        return [(g, None) for g in mod]
            if m in FRESH_METHODS or m in MUTATING_METHODS:
                return []
            return [(g, fn.value) for g in cands]
        return []

    def _analyse(self, f: Func) -> bool:
        """one flow-sensitive pass over the body; returns True if the summary grew"""
        before = (len(f.writes), len(f.captures), len(f.rng), len(f.calls), len(f.returns))
        imports = self.module_imports[f.relpath]
        EMPTY = frozenset()

        def text(n):
            try:
                return ast.unparse(n).splitlines()[0]
            except Exception:
                return "?"

        def add_write(root, path, kind, n, via=None):
            w = Write(root, path, kind, getattr(n, "lineno", 0), text(n), via)
            f.writes.setdefault(w.key(), w)

        def join(a, b):
            out = dict(a)
            for k, v in b.items():
                out[k] = out.get(k, EMPTY) | v
            return out

        def call_result(e: ast.Call, env):
            name = self._dotted(e.func) or ""
            if name in self.fresh_calls.get(f.id, ()):
                return EMPTY
            if name.split(".")[-1] in self.cached:
                return frozenset({"<cached>:" + name.split(".")[-1]})
            base = name.replace("fallback_np.", "np.").replace("connector.np.", "np.").replace("forward_pass_np.", "np.")
            if base in FRESH_FUNCS or name.split(".")[-1] == "deepcopy":
                return EMPTY
            if isinstance(e.func, ast.Attribute):
                if e.func.attr in FRESH_METHODS:
                    return EMPTY
                if base.startswith(("np.", "numpy.", "self.np.", "self._np.")) and e.func.attr in ALIASING_NP:
                    out = EMPTY
                    for a in e.args[:1]:
                        out |= prov(a, env)
                    for k in e.keywords:
                        if k.arg in ("a", "x", "m", "ary", "array", "val"):
                            out |= prov(k.value, env)
                    return out
                if base.startswith(("np.", "scipy.", "math.", "numpy.", "tf.", "jnp.", "jax.", "self._tf.", "self._jax.", "self.np.", "self._np.")):
                    return EMPTY
            argp = EMPTY
            for a in e.args:
                argp |= prov(a, env)
            for k in e.keywords:
                argp |= prov(k.value, env)
            if name in SHALLOW_COPIES:
                return _reach_only(argp)
            targets = self._resolve(f, e)
            if targets and all(r == "<new>" for _, r in targets):
                return _reach_only(argp)       # a new object that may hold its arguments
            if targets and all(r != "<new>" for _, r in targets):
                out = EMPTY
                for g, recv in targets:
                    amap = self._argmap(g, recv, e)
                    for r in g.returns:
                        base_r = r.lstrip("~")
                        if base_r in amap:
                            p = prov(amap[base_r], env)
                            out |= _reach_only(p) if r.startswith("~") else p
                        elif base_r.startswith("<cached>"):
                            out |= {r}
                return out
            if name in self.new_calls.get(f.id, ()):
                return _reach_only(argp)       # contract-declared constructor call
            if name and name.split(".")[-1][:1].isupper():
                return _reach_only(argp)       # CamelCase callable: constructor of an external class
            if isinstance(e.func, ast.Attribute):
                return _descend(prov(e.func.value, env) | argp)
            return _descend(argp)

        def prov(e, env) -> frozenset:
            if e is None:
                return EMPTY
            if isinstance(e, ast.Name):
                return env.get(e.id, EMPTY)
            if isinstance(e, (ast.Attribute, ast.Subscript)):
                return _descend(prov(e.value, env))
            if isinstance(e, ast.Starred):
                return _descend(prov(e.value, env))
            if isinstance(e, ast.Call):
                return call_result(e, env)
            if isinstance(e, (ast.BinOp, ast.UnaryOp, ast.Compare, ast.Constant, ast.JoinedStr, ast.FormattedValue)):
                return EMPTY
            if isinstance(e, ast.BoolOp):
                out = EMPTY
                for v in e.values:
                    out |= prov(v, env)
                return out
            if isinstance(e, ast.IfExp):
                return prov(e.body, env) | prov(e.orelse, env)
            if isinstance(e, (ast.Tuple, ast.List, ast.Set)):
                out = EMPTY
                for v in e.elts:
                    out |= prov(v, env)
                return _reach_only(out)
            if isinstance(e, ast.Dict):
                out = EMPTY
                for v in e.values:
                    if v is not None:
                        out |= prov(v, env)
                return _reach_only(out)
            if isinstance(e, (ast.ListComp, ast.SetComp, ast.GeneratorExp)):
                return _reach_only(prov(e.elt, comp_env(e.generators, env)))
            if isinstance(e, ast.DictComp):
                return _reach_only(prov(e.value, comp_env(e.generators, env)))
            if isinstance(e, ast.NamedExpr):
                return prov(e.value, env)
            return EMPTY

        def comp_env(gens, env):
            env = dict(env)
            for g in gens:
                bind(g.target, _descend(prov(g.iter, env)), env)
            return env

        def bind(target, roots, env):
            if isinstance(target, ast.Name):
                env[target.id] = roots
            elif isinstance(target, (ast.Tuple, ast.List)):
                for t in target.elts:
                    bind(t, _descend(roots), env)
            elif isinstance(target, ast.Starred):
                bind(target.value, roots, env)

        def target_write(t, n, kind, env):
            if isinstance(t, ast.Attribute):
                for r in _own(prov(t.value, env)):
                    add_write(r, "." + t.attr, kind, n)
            elif isinstance(t, ast.Subscript):
                for r in _own(prov(t.value, env)):
                    add_write(r, _path_of(t.value) + "[]", kind, n)
            elif isinstance(t, (ast.Tuple, ast.List)):
                for x in t.elts:
                    target_write(x, n, kind, env)
            elif isinstance(t, ast.Starred):
                target_write(t.value, n, kind, env)

        def scan(e, env):
            """effects of evaluating expression e (calls) under env"""
            if e is None:
                return
            if isinstance(e, (ast.ListComp, ast.SetComp, ast.GeneratorExp, ast.DictComp)):
                inner = dict(env)
                for g in e.generators:
                    scan(g.iter, inner)
                    bind(g.target, _descend(prov(g.iter, inner)), inner)
                    for c in g.ifs:
                        scan(c, inner)
                if isinstance(e, ast.DictComp):
                    scan(e.key, inner)
                    scan(e.value, inner)
                else:
                    scan(e.elt, inner)
                return
            if isinstance(e, ast.Lambda):
                inner = dict(env)
                for a in e.args.args:
                    inner.setdefault(a.arg, EMPTY)
                scan(e.body, inner)
                return
            if isinstance(e, ast.Call):
                self._call(f, e, lambda x: prov(x, env), add_write, imports)
            for c in ast.iter_child_nodes(e):
                if isinstance(c, ast.expr):
                    scan(c, env)
                elif isinstance(c, ast.keyword):
                    scan(c.value, env)
                elif isinstance(c, ast.comprehension):
                    pass

        def block(stmts, env):
            for s in stmts:
                env = stmt(s, env)
            return env

        def loop(body, env, pre):
            cur = env
            for _ in range(4):
                e1 = dict(cur)
                pre(e1)
                e2 = block(body, e1)
                nxt = join(cur, e2)
                if nxt == cur:
                    break
                cur = nxt
            e1 = dict(cur)
            pre(e1)
            return join(cur, block(body, e1))

        def stmt(s, env):
            if isinstance(s, ast.Assign):
                scan(s.value, env)
                r = prov(s.value, env)
                env = dict(env)
                for t in s.targets:
                    scan_targets(t, env)
                    target_write(t, s, "store", env)
                    if isinstance(t, ast.Attribute) and t.attr in self.setters:
                        for g in self.setters[t.attr]:
                            f.calls.add(g.id)
                            for w in list(g.writes.values()):
                                if w.root == g.params[0]:
                                    for rr in _own(prov(t.value, env)):
                                        add_write(rr, w.path, "via-setter", s, via=g.id)
                    if isinstance(t, ast.Attribute):
                        for holder in _own(prov(t.value, env)):
                            for src in {x.lstrip("~") for x in r}:
                                if holder != src:
                                    f.captures.setdefault((src, holder, t.attr), {
                                        "param": src, "into": holder, "field": t.attr, "line": s.lineno,
                                        "text": text(s)[:140]})
                    bind(t, r, env)
                return env
            if isinstance(s, ast.AnnAssign):
                if s.value is not None:
                    scan(s.value, env)
                    env = dict(env)
                    target_write(s.target, s, "store", env)
                    bind(s.target, prov(s.value, env), env)
                return env
            if isinstance(s, ast.AugAssign):
                scan(s.value, env)
                env = dict(env)
                if isinstance(s.target, ast.Name):
                    for r in _own(env.get(s.target.id, EMPTY)):
                        add_write(r, "<in-place " + type(s.op).__name__ + ">", "augassign-name", s)
                    # the binding keeps its provenance: a mutable receiver stays the same object, an
                    # immutable one is replaced by a fresh value
                else:
                    scan_targets(s.target, env)
                    target_write(s.target, s, "augstore", env)
                return env
            if isinstance(s, ast.Delete):
                for t in s.targets:
                    target_write(t, s, "delete", env)
                return env
            if isinstance(s, ast.Expr):
                scan(s.value, env)
                c = s.value
                if (isinstance(c, ast.Call) and isinstance(c.func, ast.Attribute) and isinstance(c.func.value, ast.Name)
                        and c.func.attr in ("append", "extend", "insert", "add", "update", "setdefault")):
                    held = EMPTY
                    for a in c.args:
                        held |= prov(a, env)
                    for k in c.keywords:
                        held |= prov(k.value, env)
                    env = dict(env)
                    env[c.func.value.id] = env.get(c.func.value.id, EMPTY) | _reach_only(held)
                return env
            if isinstance(s, ast.Return):
                if s.value is not None:
                    scan(s.value, env)
                    f.returns |= {r for r in prov(s.value, env)}
                    if isinstance(s.value, ast.Call) and not self._resolve(f, s.value) and not _fresh_name(self._dotted(s.value.func) or ""):
                        pass
                return env
            if isinstance(s, ast.If):
                scan(s.test, env)
                return join(block(s.body, env), block(s.orelse, env))
            if isinstance(s, (ast.For, ast.AsyncFor)):
                scan(s.iter, env)
                it = _descend(prov(s.iter, env))
                out = loop(s.body, env, lambda e: bind(s.target, it, e))
                return block(s.orelse, out) if s.orelse else out
            if isinstance(s, ast.While):
                scan(s.test, env)
                out = loop(s.body, env, lambda e: None)
                return block(s.orelse, out) if s.orelse else out
            if isinstance(s, ast.Try):
                e1 = block(s.body, env)
                mid = join(env, e1)
                outs = [block(s.orelse, e1) if s.orelse else e1]
                for h in s.handlers:
                    he = dict(mid)
                    if h.name:
                        he[h.name] = EMPTY
                    outs.append(block(h.body, he))
                out = outs[0]
                for o in outs[1:]:
                    out = join(out, o)
                if s.finalbody:
                    out = block(s.finalbody, join(out, mid))
                return out
            if isinstance(s, (ast.With, ast.AsyncWith)):
                env = dict(env)
                for i in s.items:
                    scan(i.context_expr, env)
                    if i.optional_vars is not None:
                        bind(i.optional_vars, prov(i.context_expr, env), env)
                return block(s.body, env)
            if isinstance(s, (ast.FunctionDef, ast.AsyncFunctionDef)):
                inner = dict(env)
                a = s.args
                for p in a.posonlyargs + a.args + a.kwonlyargs:
                    inner.setdefault(p.arg, EMPTY)
                block(s.body, inner)
                env = dict(env)
                env[s.name] = EMPTY
                return env
            if isinstance(s, ast.Raise):
                scan(s.exc, env)
                return env
            if isinstance(s, ast.Assert):
                scan(s.test, env)
                return env
            return env

        def scan_targets(t, env):
            # index expressions / receivers inside assignment targets may contain calls
            if isinstance(t, ast.Subscript):
                scan(t.value, env)
                scan(t.slice, env)
            elif isinstance(t, ast.Attribute):
                scan(t.value, env)
            elif isinstance(t, (ast.Tuple, ast.List)):
                for x in t.elts:
                    scan_targets(x, env)

        env0 = {p: frozenset({p}) for p in f.params}
        block(f.node.body, env0)
        after = (len(f.writes), len(f.captures), len(f.rng), len(f.calls), len(f.returns))
        return after != before

    def _argmap(self, g, recv, n: ast.Call):
        params = list(g.params)
        amap = {}
        if recv is not None and recv != "<new>" and params and not _is_static(g):
            amap[params[0]] = recv
            params = params[1:]
        elif recv == "<new>" and params:
            params = params[1:]
        elif params and g.cls and not _is_static(g) and recv is None and params[0] in ("self", "cls"):
            params = params[1:]
        for p, a in zip(params, n.args):
            if isinstance(a, ast.Starred):
                break
            amap[p] = a
        for k in n.keywords:
            if k.arg in g.params:
                amap[k.arg] = k.value
        return amap

    def _call(self, f, n: ast.Call, prov, add_write, imports):
        name = self._dotted(n.func) or ""
        head = name.split(".")[0] if name else ""
        # process-global randomness
        if head and imports.get(head) == "random" and "." in name:
            attr = name.split(".")[1]
            if attr not in GLOBAL_RNG_OK:
                self._rng(f, n, name, "write" if attr in ("seed", "setstate") else "read")
        if name.startswith("np.random.") or name.startswith("numpy.random."):
            attr = name.split(".")[2]
            if attr not in GLOBAL_RNG_OK:
                self._rng(f, n, name, "write" if attr in ("seed", "set_state") else "read")
        if isinstance(n.func, ast.Attribute):
            m = n.func.attr
            if m in MUTATING_METHODS:
                for r in _own(prov(n.func.value)):
                    add_write(r, _path_of(n.func.value) + f".{m}()", "mutating-method", n)
        if name in ("setattr", "delattr") and n.args:
            for r in _own(prov(n.args[0])):
                add_write(r, ".<setattr>", "setattr", n)
        for k in n.keywords:
            if k.arg == "out":
                for r in _own(prov(k.value)):
                    add_write(r, "<out=>", "out-argument", n)
        targets = self._resolve(f, n)
        if not targets and name and not (name.split(".")[-1] in FRESH_METHODS or name.split(".")[-1] in MUTATING_METHODS):
            f.unresolved.add(name)
        for g, recv in targets:
            f.calls.add(g.id)
            if g is f and not g.writes:
                continue
            amap = self._argmap(g, recv, n)
            for w in list(g.writes.values()):
                if w.root in amap:
                    for r in _own(prov(amap[w.root])):
                        add_write(r, w.path, "via-call", n, via=g.id)

    def _rng(self, f, n, name, mode):
        ent = {"call": name, "mode": mode, "line": n.lineno}
        if ent not in f.rng:
            f.rng.append(ent)

    def _fixpoint(self):
        for _ in range(12):
            changed = False
            for f in self.funcs.values():
                changed |= self._analyse(f)
            if not changed:
                break

    # ------------------------------------------------------------------ queries
    def get(self, fid) -> Func:
        return self.funcs[fid]

    def reachable(self, roots):
        seen, stack = set(), list(roots)
        while stack:
            x = stack.pop()
            if x in seen or x not in self.funcs:
                continue
            seen.add(x)
            stack.extend(self.funcs[x].calls)
        return seen

    def writes_of(self, fid, root):
        return [w for w in self.funcs[fid].writes.values() if w.root == root]


def _descend(roots):
    """provenance of a component (attribute / item / element) of a value with provenance `roots`:
    what was merely reachable may now be the caller's object itself"""
    return frozenset(r.lstrip("~") for r in roots)


def _reach_only(roots):
    """provenance of a fresh container/object holding values of provenance `roots`"""
    return frozenset("~" + r.lstrip("~") for r in roots)


def _own(roots):
    return [r for r in roots if not r.startswith("~")]


SHALLOW_COPIES = {"list", "tuple", "dict", "set", "frozenset", "sorted", "reversed", "enumerate", "zip", "iter", "map", "filter"}


def _fresh_name(name: str) -> bool:
    return name in FRESH_FUNCS or name.split(".")[-1] in FRESH_METHODS


def _is_cache_expr(d) -> bool:
    if isinstance(d, ast.Call):
        d = d.func
    if isinstance(d, ast.Name):
        return d.id in ("lru_cache", "cache")
    if isinstance(d, ast.Attribute):
        return d.attr in ("lru_cache", "cache")
    return False


def _is_static(g: Func) -> bool:
    for d in g.node.decorator_list:
        if isinstance(d, ast.Name) and d.id == "staticmethod":
            return True
    return False


def _path_of(e) -> str:
    if isinstance(e, ast.Name):
        return ""
    if isinstance(e, ast.Attribute):
        return _path_of(e.value) + "." + e.attr
    if isinstance(e, ast.Subscript):
        return _path_of(e.value) + "[]"
    if isinstance(e, ast.Call):
        return _path_of(e.func) + "()"
    return "?"
