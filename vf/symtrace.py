"""symtrace: run the REAL numeric functions on exact symbolic values through the connector seam.

An obligation is a callable `build(env)` that, given an `Env` (atom factory + connector +
config), runs real piquasso code and returns `(lhs, rhs)`; the obligation is discharged when
every entry of `lhs - rhs` has normal form 0 (vf.sympoly).  The same `build` is then usable
with a *numeric* Env (real NumpyConnector, random floats): that is the replay of a failing
obligation on the real code.
"""
from __future__ import annotations

import math
import multiprocessing as mp
import os
import time
import traceback

import numpy as np

from . import sympoly as sp
from .sympoly import P, SymArray, VNP, Refuse


def _connector_classes():
    from piquasso._simulators.connectors.numpy_.connector import NumpyConnector

    class VerifConnector(NumpyConnector):
        """NumpyConnector whose `np` is the symbolic-aware namespace; nothing else differs."""

        np = fallback_np = forward_pass_np = VNP

        def assign(self, array, index, value):
            if sp.is_symbolic(value) and not (isinstance(array, np.ndarray) and array.dtype == object):
                array = SymArray(np.asarray(array))
            array[index] = value
            return array

    return NumpyConnector, VerifConnector


class Env:
    """Atom factory.  symbolic=True -> P atoms; else random floats drawn from `rng`."""

    def __init__(self, symbolic=True, seed=0):
        import piquasso as pq

        NumpyConnector, VerifConnector = _connector_classes()
        self.symbolic = symbolic
        self.rng = np.random.default_rng(seed)
        self.values = {}
        self.connector = VerifConnector() if symbolic else NumpyConnector()
        self.np = self.connector.np
        if symbolic:
            sh = P.atom("sqrt_hbar", invertible=True)
            self.sqrt_hbar = sh
            self.hbar = sh * sh
        else:
            self.sqrt_hbar = float(self.rng.uniform(0.6, 1.9))
            self.hbar = self.sqrt_hbar ** 2
            self.values["sqrt_hbar"] = self.sqrt_hbar
        self.config = pq.Config(hbar=self.hbar, validate=False)

    # scalars
    def real(self, name):
        if self.symbolic:
            return P.atom(name)
        v = float(self.rng.uniform(-1.3, 1.3))
        self.values[name] = v
        return v

    angle = real

    def pos(self, name):
        if self.symbolic:
            return P.atom(name, invertible=True)
        v = float(self.rng.uniform(0.4, 1.8))
        self.values[name] = v
        return v

    def cplx(self, name):
        return self.real(name + "_re") + 1j * self.real(name + "_im") if not self.symbolic else (
            P.atom(name + "_re") + P.I() * P.atom(name + "_im")
        )

    # arrays
    def arr(self, data):
        if self.symbolic:
            return SymArray(np.array(data, dtype=object))
        return np.array(data, dtype=complex)

    def cvector(self, name, n):
        return self.arr([self.cplx(f"{name}{i}") for i in range(n)])

    def cmatrix(self, name, n, m=None):
        m = n if m is None else m
        return self.arr([[self.cplx(f"{name}{i}_{j}") for j in range(m)] for i in range(n)])

    def rmatrix(self, name, n, m=None):
        m = n if m is None else m
        return self.arr([[self.real(f"{name}{i}_{j}") for j in range(m)] for i in range(n)])

    def hermitian(self, name, n):
        M = [[None] * n for _ in range(n)]
        for i in range(n):
            M[i][i] = self.real(f"{name}{i}_{i}") + 0 * 1j if not self.symbolic else P.atom(f"{name}{i}_{i}")
            for j in range(i + 1, n):
                z = self.cplx(f"{name}{i}_{j}")
                M[i][j] = z
                M[j][i] = z.conjugate()
        return self.arr(M)

    def csymmetric(self, name, n):
        M = [[None] * n for _ in range(n)]
        for i in range(n):
            for j in range(i, n):
                z = self.cplx(f"{name}{i}_{j}")
                M[i][j] = z
                M[j][i] = z
        return self.arr(M)

    def rsymmetric(self, name, n):
        M = [[None] * n for _ in range(n)]
        for i in range(n):
            for j in range(i, n):
                z = self.real(f"{name}{i}_{j}")
                M[i][j] = z
                M[j][i] = z
        return self.arr(M)

    def gaussian_state(self, d, tag="s"):
        """A GaussianState with fully symbolic (m, C, G) under the representation invariant
        C = C^dagger, G = G^T (imposed by parametrisation), symbolic hbar > 0."""
        from piquasso._simulators.gaussian.state import GaussianState

        st = GaussianState(d=d, connector=self.connector, config=self.config)
        st._m = self.cvector(tag + "_m", d)
        st._C = self.hermitian(tag + "_C", d)
        st._G = self.csymmetric(tag + "_G", d)
        return st


# ------------------------------------------------------------------------------- running
def _residual(lhs, rhs):
    if isinstance(lhs, (list, tuple)):
        out = []
        for k, (l, r) in enumerate(zip(lhs, rhs)):
            out += [((k,) + tuple(i), e) for i, e in _residual(l, r)]
        if len(lhs) != len(rhs):
            raise Refuse("shape mismatch between lhs and rhs lists")
        return out
    la = np.asarray(lhs, dtype=object)
    ra = np.asarray(rhs, dtype=object)
    if la.shape != ra.shape:
        return [((), P.atom(f"SHAPE_MISMATCH_{la.shape}_{ra.shape}"))]
    return sp.residual_entries(la - ra)


def run_symbolic(build):
    """-> (status, info). status in discharged|failed|undecided"""
    t0 = time.time()
    n_inexact = len(sp.ATOMS.inexact_floats)
    try:
        env = Env(symbolic=True)
        lhs, rhs = build(env)
        res = _residual(lhs, rhs)
    except Refuse as e:
        return "undecided", {"reason": f"refused: {e}", "seconds": time.time() - t0}
    dt = time.time() - t0
    inexact = sp.ATOMS.inexact_floats[n_inexact:]
    if not res:
        n_entries = int(np.size(np.asarray(lhs, dtype=object))) if not isinstance(lhs, (list, tuple)) else sum(
            int(np.size(np.asarray(x, dtype=object))) for x in lhs)
        return "discharged", {"seconds": dt, "entries": n_entries}
    idx, e = res[0]
    return "failed", {
        "seconds": dt,
        "nonzero_entries": len(res),
        "first_entry": list(idx),
        "first_residual": repr(e)[:600],
        "inexact_floats": inexact[:5],
    }


def run_numeric(build, seeds=(1, 2, 3), tol=1e-9):
    """Replay on the real NumpyConnector with random floats; -> worst (residual, seed, values)."""
    worst = (0.0, None, None)
    for s in seeds:
        env = Env(symbolic=False, seed=s)
        lhs, rhs = build(env)
        if isinstance(lhs, (list, tuple)):
            diffs = [np.max(np.abs(np.asarray(l, dtype=complex) - np.asarray(r, dtype=complex)), initial=0.0)
                     for l, r in zip(lhs, rhs)]
            r = float(max(diffs, default=0.0))
        else:
            r = float(np.max(np.abs(np.asarray(lhs, dtype=complex) - np.asarray(rhs, dtype=complex)), initial=0.0))
        if r > worst[0]:
            worst = (r, s, dict(env.values))
    return worst


def _work(item):
    name, build = item
    try:
        status, info = run_symbolic(build)
        if status == "failed":
            try:
                r, seed, values = run_numeric(build)
                info["numeric_replay"] = {"max_abs_residual": r, "seed": seed,
                                          "values": {k: values[k] for k in list(values or {})[:40]}}
            except Exception as e:  # replay trouble must not hide the symbolic verdict
                info["numeric_replay"] = {"error": repr(e)}
        return name, status, info
    except Exception:
        return name, "broken", {"traceback": traceback.format_exc()[-1500:]}


_OBLS = {}


def _work_by_name(name):
    return _work((name, _OBLS[name]))


def discharge(run, obligations: dict, *, engine="symtrace", functions=(), workers=None, tol=1e-9):
    """obligations: name -> build.  Registers results on `run`."""
    global _OBLS
    _OBLS = obligations
    names = list(obligations)
    if getattr(run, "only", None):
        names = [n for n in names if run.only in n]
    workers = workers or min(int(os.environ.get("VF_WORKERS", "12")), max(1, len(names)))
    import piquasso  # noqa: F401  (import once in the parent: forked workers inherit it)
    _connector_classes()
    # serial first (numba helpers compile once, cheap obligations cost milliseconds); whatever
    # is left after the serial budget goes to a fork pool (gc.freeze avoids copy-on-write storms)
    t_s = time.time()
    results = []
    k = 0
    budget = float(os.environ.get("VF_SERIAL_BUDGET", "20"))
    while k < len(names) and (time.time() - t_s < budget or len(names) - k < 4):
        results.append(_work_by_name(names[k]))
        k += 1
    rest = names[k:]
    if rest:
        import gc

        gc.collect()
        gc.freeze()
        ctx = mp.get_context("fork")
        with ctx.Pool(workers) as pool:
            results += pool.map(_work_by_name, rest, chunksize=1)
        gc.unfreeze()
    run.notes.append(f"symtrace: {k} obligations serial in {time.time() - t_s:.1f}s, {len(rest)} in a pool of {workers}")
    for name, status, info in results:
        secs = info.get("seconds", 0.0)
        if status == "discharged":
            run.discharged(name, engine, "polynomial-normal-form", secs,
                           sample={"entries_checked": info.get("entries")})
        elif status == "undecided":
            run.undecided_ob(name, engine, "polynomial-normal-form", info["reason"], secs)
        elif status == "broken":
            run.broken_ob(name, info["traceback"])
        else:
            rep = info.get("numeric_replay", {})
            reproduced = bool(rep.get("max_abs_residual", 0) > tol)
            run.failed(
                name, engine, "polynomial-normal-form",
                what=f"identity lhs == rhs does not hold: {info['nonzero_entries']} non-zero "
                     f"entries, first at {info['first_entry']}: {info['first_residual'][:200]}",
                counterexample=rep.get("values"),
                replay={"kind": "symtrace-numeric", "obligation": name, "seed": rep.get("seed")},
                reproduced=reproduced,
                observed=rep,
                solver_output=info,
                seconds=secs,
            )
    for f in functions:
        run.function(f)
    return results


# ------------------------------------------------------------------------------- helpers
class ObjectNP:
    """module-level `np` for step functions that build arrays with a float/complex dtype and then store symbolic entries
    into them: same namespace as the verification connector's `np`, but the constructors return object arrays (exact
    entries of general type) - the dtype of a container is a property of the leaf library, not of the code under proof"""

    def __init__(self, base):
        self._base = base

    def __getattr__(self, name):
        return getattr(self._base, name)

    def identity(self, n, dtype=None):
        return np.identity(n, dtype=object).view(SymArray)

    def zeros(self, shape, dtype=None, **k):
        return np.zeros(shape, dtype=object).view(SymArray)

    def zeros_like(self, a, dtype=None, **k):
        return np.zeros(np.shape(a), dtype=object).view(SymArray)

    def ix_(self, *a):
        return np.ix_(*a)


class patched_np:
    """with patched_np(module, env): the module's global `np` is the symbolic-aware namespace (symbolic runs only)"""

    def __init__(self, module, env):
        self.module, self.env = module, env

    def __enter__(self):
        self.saved = self.module.np
        if self.env.symbolic:
            self.module.np = ObjectNP(self.env.np)

    def __exit__(self, *a):
        self.module.np = self.saved


def embed(np_, d, modes, block, identity=True):
    """d x d matrix acting as `block` on the ordered tuple `modes`, identity (or 0) elsewhere."""
    out = np.empty((d, d), dtype=object)
    for i in range(d):
        for j in range(d):
            out[i, j] = (1 if i == j else 0) if identity else 0
    for a, i in enumerate(modes):
        for b, j in enumerate(modes):
            out[i, j] = block[a, b]
    return out


def to_obj(x):
    return np.asarray(x, dtype=object)


def W_matrix(d, env=None):
    """W = 1/sqrt2 [[I, iI],[I, -iI]] (docstring of GaussianState.complex_displacement).
    In symbolic mode every entry is an exact P (so no float*float happens in the spec)."""
    r = 1 / math.sqrt(2)
    I = np.identity(d)
    W = np.block([[I * r, 1j * I * r], [I * r, -1j * I * r]])
    if env is not None and env.symbolic:
        return SymArray(W)
    return W


def exact(env, a):
    """Entries of a numeric/object array as exact P in symbolic mode (spec-side helper)."""
    if env.symbolic:
        return SymArray(np.asarray(a, dtype=object))
    return np.asarray(a, dtype=complex)
