"""cppvc: clang JSON AST -> Python AST of the INTEGER SKELETON of a C++ function -> pyvc (DESIGN 2.4).

`clang++-14 -std=c++17 -fsyntax-only -Xclang -ast-dump=json` is run on the real source in /repo/src on
every check; the selected FunctionDecl / CXXMethodDecl (template instantiations included) is
translated statement by statement into the Python subset that vf/pyvc.py verifies.

What the extraction keeps: every declaration, assignment, condition, loop, call and subscript whose
type is an integer / bool / pointer-to-int / Vector<int>; every index expression (also those that
occur inside dropped floating statements, as bounds obligations).
What it drops: statements whose assigned l-value (or whole expression) has a floating, std::complex
or Matrix<complex> type - after turning the integer index expressions inside them into bounds
obligations.  The translator REFUSES (Unsupported) any condition of an if/loop that has floating type
dependencies, so dropping cannot change integer control flow.

Arithmetic is bit-precise by obligation: every signed operation is wrapped in __i32/__i64 (range
obligation), unsigned operations in __u32/__u64 (wrap-around semantics), `/` and `%` become
__cdiv/__cmod (C++ truncation, divisor != 0 obligation), integral casts become __cast_<type>.
"""
from __future__ import annotations

import ast
import json
import os
import subprocess

from .common import REPO
from .pyvc import Unsupported

CLANG = "clang++-14"

INT_TYPES = {
    "int": "i32", "const int": "i32", "long": "i64", "int64_t": "i64", "const int64_t": "i64", "long long": "i64",
    "unsigned int": "u32", "unsigned long": "u64", "size_t": "u64", "std::size_t": "u64", "const size_t": "u64",
    "char": "i8", "bool": "bool", "unsigned char": "u8", "uint64_t": "u64", "uint32_t": "u32", "const unsigned int": "u32",
    "std::vector::size_type": "u64", "size_type": "u64", "unsigned long long": "u64", "const long": "i64",
}


# the configuration that is verified is the one that is shipped and rebuilt by vf/native.py: OpenMP enabled
# (src/CMakeLists.txt links OpenMP when found).  clang 14 has no omp.h here: native/omp_stub/omp.h declares the
# few runtime queries, whose results are arbitrary in the contracts.
OMP_ARGS = ("-fopenmp", "-I" + os.path.join(os.path.dirname(os.path.dirname(os.path.abspath(__file__))), "native", "omp_stub"))


def clang_ast(src_rel, name_filter, repo=None, extra_args=OMP_ARGS):
    repo = repo or REPO
    cmd = [CLANG, "-std=c++17", "-fsyntax-only", "-Xclang", "-ast-dump=json", "-Xclang", f"-ast-dump-filter={name_filter}",
           f"-I{os.path.join(repo, 'src')}", *extra_args, os.path.join(repo, src_rel)]
    p = subprocess.run(cmd, capture_output=True, text=True, timeout=600)
    txt = p.stdout
    dec = json.JSONDecoder()
    i, docs = 0, []
    while i < len(txt):
        while i < len(txt) and txt[i].isspace():
            i += 1
        if i >= len(txt):
            break
        obj, j = dec.raw_decode(txt, i)
        docs.append(obj)
        i = j
    if not docs:
        raise Unsupported(f"clang produced no AST for {name_filter} in {src_rel}: {p.stderr[-300:]}")
    return docs


def find_function(docs, name, type_prefix=None, cls=None):
    """FunctionDecl / CXXMethodDecl / CXXConstructorDecl with a body; template instantiations are nested"""
    hits = []

    def walk(n, in_cls=None):
        k = n.get("kind")
        if k in ("CXXRecordDecl", "ClassTemplateSpecializationDecl"):
            in_cls = n.get("name", in_cls)
        if k in ("FunctionDecl", "CXXMethodDecl", "CXXConstructorDecl") and n.get("name") == name:
            has_body = any(c.get("kind") == "CompoundStmt" for c in n.get("inner", []))
            qt = (n.get("type") or {}).get("qualType", "")
            if has_body and (type_prefix is None or qt.startswith(type_prefix)) and (cls is None or in_cls == cls):
                hits.append(n)
        for c in n.get("inner", []) or []:
            walk(c, in_cls)

    for d in docs:
        walk(d)
    if not hits:
        raise Unsupported(f"function {name} ({type_prefix}) not found in the clang AST")
    return hits[0]


def qt(n):
    t = (n.get("type") or {})
    return t.get("desugaredQualType") or t.get("qualType", "")


def int_kind(type_str):
    t = type_str.replace("&", "").strip()
    if t in INT_TYPES:
        return INT_TYPES[t]
    return None


def is_float_type(t):
    return any(x in t for x in ("float", "double", "complex", "Matrix<", "TComplex"))


class Translator:
    def __init__(self, contract):
        self.contract = contract
        self.prefix_fields = contract.get("fields_as", {})          # member name -> python variable name
        self.matrix_dims = {}                                       # matrix variable -> (rows name, cols name)
        self.locals_declared = set()
        self.dropped = 0
        self.bounds = 0
        self.tmp = 0

    # ------------------------------------------------------------------ helpers
    def name(self, s):
        return ast.Name(id=s, ctx=ast.Load())

    def const(self, v):
        return ast.Constant(value=v)

    def call(self, fn, *args):
        return ast.Call(func=self.name(fn), args=list(args), keywords=[])

    def stmt_expr(self, e):
        return ast.Expr(value=e)

    def obligation(self, test, label):
        # `assert` is an obligation in pyvc
        return ast.Assert(test=test, msg=self.const(label))

    def wrap(self, kind, e):
        if kind in ("i32", "i64", "i8"):
            return self.call(f"__{kind}", e)
        if kind in ("u32", "u64", "u8"):
            return self.call(f"__{kind}", e)
        return e

    # ------------------------------------------------------------------ expressions
    def ex(self, n):
        k = n.get("kind")
        m = getattr(self, "ex_" + k, None)
        if m is None:
            raise Unsupported(f"C++ expression {k} not supported ({n.get('range', {}).get('begin', {}).get('line', '?')})")
        return m(n)

    def ex_ParenExpr(self, n):
        return self.ex(n["inner"][0])

    def ex_ConstantExpr(self, n):
        return self.ex(n["inner"][0])

    def ex_ExprWithCleanups(self, n):
        return self.ex(n["inner"][0])

    def ex_MaterializeTemporaryExpr(self, n):
        return self.ex(n["inner"][0])

    def ex_CXXBindTemporaryExpr(self, n):
        return self.ex(n["inner"][0])

    def ex_IntegerLiteral(self, n):
        return self.const(int(n["value"]))

    def ex_CXXBoolLiteralExpr(self, n):
        return self.const(bool(n["value"]))

    def ex_CharacterLiteral(self, n):
        return self.const(int(n["value"]))

    def ex_DeclRefExpr(self, n):
        nm = n["referencedDecl"]["name"]
        return self.name(nm)

    def ex_MemberExpr(self, n):
        base = n["inner"][0]
        member = n["name"]
        if base.get("kind") == "CXXThisExpr":
            return self.name(self.prefix_fields.get(member, "f_" + member))
        b = self.ex(base)
        if isinstance(b, ast.Name):
            return self.name(f"{b.id}_{member}")
        raise Unsupported(f"member access {member} on a complex base")

    def ex_ImplicitCastExpr(self, n):
        inner = n["inner"][0]
        ck = n.get("castKind")
        if ck in ("LValueToRValue", "NoOp", "ArrayToPointerDecay", "FunctionToPointerDecay", "ConstructorConversion",
                  "DerivedToBase", "UncheckedDerivedToBase", "UserDefinedConversion"):
            return self.ex(inner)
        if ck == "IntegralCast":
            return self.cast(qt(n), qt(inner), self.ex(inner))
        if ck == "NullToPointer":
            return self.call("__new_int_array", self.const(0))
        if ck == "IntegralToBoolean":
            return ast.Compare(left=self.ex(inner), ops=[ast.NotEq()], comparators=[self.const(0)])
        if ck in ("IntegralToFloating", "FloatingCast", "FloatingToIntegral", "FloatingComplexCast", "FloatingRealToComplex"):
            raise Unsupported("floating cast in an integer context")
        raise Unsupported(f"cast kind {ck}")

    def ex_CXXStaticCastExpr(self, n):
        inner = n["inner"][0]
        tk, sk = int_kind(qt(n)), int_kind(qt(inner))
        if tk is None or sk is None:
            # casts to floating types occur only inside dropped statements
            raise Unsupported(f"static_cast to {qt(n)}")
        return self.cast(qt(n), qt(inner), self.ex(inner))

    ex_CStyleCastExpr = ex_CXXStaticCastExpr
    ex_CXXFunctionalCastExpr = ex_CXXStaticCastExpr

    def ex_InitListExpr(self, n):
        if not n.get("inner"):      # int{} : value-initialisation
            if int_kind(qt(n)) is None:
                raise Unsupported(f"empty initialiser list of type {qt(n)}")
            return self.const(0)
        return self.ex(n["inner"][0])

    def ex_CXXScalarValueInitExpr(self, n):
        if int_kind(qt(n)) is None:
            raise Unsupported(f"value initialisation of type {qt(n)}")
        return self.const(0)

    def cast(self, to_t, from_t, e):
        tk, sk = int_kind(to_t), int_kind(from_t)
        if tk is None or sk is None:
            raise Unsupported(f"cast {from_t} -> {to_t}")
        if tk == sk or tk == "bool":
            return e
        order = {"bool": 0, "i8": 1, "u8": 1, "i32": 3, "u32": 3, "i64": 5, "u64": 5}
        if tk.startswith("i"):
            # to signed: value must fit (widening from a smaller signed/unsigned type always fits)
            if order[sk] < order[tk]:
                return e
            return self.call(f"__{tk}", e)
        # to unsigned: modular
        if sk.startswith("u") and order[sk] <= order[tk]:
            return e
        return self.call(f"__{tk}", e)

    def ex_UnaryOperator(self, n):
        op = n["opcode"]
        inner = n["inner"][0]
        if op == "-":
            return self.wrap(int_kind(qt(n)), ast.UnaryOp(op=ast.USub(), operand=self.ex(inner)))
        if op == "+":
            return self.ex(inner)
        if op == "!":
            return ast.UnaryOp(op=ast.Not(), operand=self.ex(inner))
        if op == "*":   # *ptr == ptr[0]
            return ast.Subscript(value=self.ex(inner), slice=self.const(0), ctx=ast.Load())
        raise Unsupported(f"unary operator {op} inside an expression")

    BIN = {"+": ast.Add, "-": ast.Sub, "*": ast.Mult}
    CMP = {"<": ast.Lt, "<=": ast.LtE, ">": ast.Gt, ">=": ast.GtE, "==": ast.Eq, "!=": ast.NotEq}

    def ex_BinaryOperator(self, n):
        op = n["opcode"]
        a, b = n["inner"]
        if is_float_type(qt(a)) or is_float_type(qt(b)):
            raise Unsupported("floating operand in an integer context")
        if op in self.BIN:
            return self.wrap(int_kind(qt(n)), ast.BinOp(left=self.ex(a), op=self.BIN[op](), right=self.ex(b)))
        if op == "/":
            return self.wrap(int_kind(qt(n)), self.call("__cdiv", self.ex(a), self.ex(b)))
        if op == "%":
            return self.call("__cmod", self.ex(a), self.ex(b))
        if op in self.CMP:
            return ast.Compare(left=self.ex(a), ops=[self.CMP[op]()], comparators=[self.ex(b)])
        if op == "&&":
            return ast.BoolOp(op=ast.And(), values=[self.truth(a), self.truth(b)])
        if op == "||":
            return ast.BoolOp(op=ast.Or(), values=[self.truth(a), self.truth(b)])
        if op == "&" and self._strip(b).get("kind") == "IntegerLiteral" and self._strip(b).get("value") == "1":
            return self.call("__cmod", self.ex(a), self.const(2)) if False else self.call("__bit0", self.ex(a))
        if op == "^":
            return self.call("__xor01", self.ex(a), self.ex(b))
        raise Unsupported(f"binary operator {op}")

    def truth(self, n):
        e = self.ex(n)
        t = int_kind(qt(n))
        if t == "bool" or isinstance(e, (ast.Compare, ast.BoolOp)) or (isinstance(e, ast.UnaryOp) and isinstance(e.op, ast.Not)):
            return e
        return ast.Compare(left=e, ops=[ast.NotEq()], comparators=[self.const(0)])

    def ex_ConditionalOperator(self, n):
        c, a, b = n["inner"]
        return ast.IfExp(test=self.truth(c), body=self.ex(a), orelse=self.ex(b))

    def ex_ArraySubscriptExpr(self, n):
        base, idx = n["inner"]
        return ast.Subscript(value=self.ex(base), slice=self.ex(idx), ctx=ast.Load())

    def ex_CXXOperatorCallExpr(self, n):
        callee = n["inner"][0]
        opname = self._callee_name(callee)
        args = n["inner"][1:]
        if opname == "operator[]":
            base, idx = args
            if is_float_type(qt(n)):
                raise Unsupported("floating element access in an integer context")
            return ast.Subscript(value=self.ex(base), slice=self.ex(idx), ctx=ast.Load())
        raise Unsupported(f"operator call {opname} in an integer context")

    def _callee_name(self, callee):
        while callee.get("kind") in ("ImplicitCastExpr", "ParenExpr"):
            callee = callee["inner"][0]
        if callee.get("kind") == "DeclRefExpr":
            return callee["referencedDecl"]["name"]
        if callee.get("kind") == "MemberExpr":
            return callee["name"]
        return "?"

    def ex_CXXMemberCallExpr(self, n):
        callee = n["inner"][0]
        while callee.get("kind") in ("ImplicitCastExpr", "ParenExpr"):
            callee = callee["inner"][0]
        meth = callee["name"]
        obj = callee["inner"][0]
        args = n["inner"][1:]
        objname = self.ex(obj) if obj.get("kind") != "CXXThisExpr" else None
        if meth == "size" and not args and "std::vector" in qt(obj) and isinstance(objname, ast.Name):
            return self.name(objname.id + "_size")
        if meth == "size" and not args:
            ot = qt(obj)
            if "Matrix" in ot and isinstance(objname, ast.Name):
                return ast.BinOp(left=self.name(objname.id + "_rows"), op=ast.Mult(), right=self.name(objname.id + "_cols"))
            return self.call("len", objname)
        key = f"{self._class_of(obj)}::{meth}"
        if key in self.contract.get("calls", {}):
            return self.call(self.contract["calls"][key], *([objname] if objname is not None else []), *[self.ex(a) for a in args])
        raise Unsupported(f"member call {key} has no contract")

    def _class_of(self, obj):
        t = qt(obj).replace("const ", "").replace("&", "").strip()
        return t.split("<")[0]

    def ex_CallExpr(self, n):
        callee = n["inner"][0]
        nm = self._callee_name(callee)
        args = n["inner"][1:]
        if nm in self.contract.get("calls", {}):
            self.call_types = getattr(self, "call_types", {})
            self.call_types[nm] = qt(self._strip(callee))
            return self.call(self.contract["calls"][nm], *[self.ex(a) for a in args])
        raise Unsupported(f"call to {nm} has no contract")

    def ex_CXXNewExpr(self, n):
        # new int[size]: a fresh array of `size` unspecified ints
        if n.get("isArray") and qt(n).replace("const ", "").strip() in ("int *",) and n.get("inner"):
            return self.call("__new_int_array", self.ex(n["inner"][0]))
        raise Unsupported(f"new-expression of type {qt(n)}")

    def ex_CXXNullPtrLiteralExpr(self, n):
        # a null pointer has no elements: every subscript through it fails its bounds obligation
        return self.call("__new_int_array", self.const(0))

    def ex_CXXDefaultArgExpr(self, n):
        raise Unsupported("default argument")

    # ------------------------------------------------------------------ statements
    def block(self, n):
        out = []
        for c in n.get("inner", []) or []:
            out += self.st(c)
        return out

    cur_line = 0

    def st(self, n):
        ln = (n.get("range", {}).get("begin", {}) or {}).get("line") or ((n.get("range", {}).get("begin", {}) or {}).get("expansionLoc", {}) or {}).get("line")
        if ln:
            self.cur_line = ln
        line = self.cur_line
        out = self._st(n)
        for s_ in out:
            for x in ast.walk(s_):
                if isinstance(x, (ast.stmt, ast.expr)) and not getattr(x, "lineno", None):
                    x.lineno = line
                    x.col_offset = 0
                    x.end_lineno = line
                    x.end_col_offset = 0
        return out

    def _st(self, n):
        k = n.get("kind")
        m = getattr(self, "st_" + k, None)
        if m is not None:
            return m(n)
        # expression statements
        if k in ("BinaryOperator", "CompoundAssignOperator", "UnaryOperator", "CXXOperatorCallExpr", "CallExpr",
                 "CXXMemberCallExpr", "ExprWithCleanups", "ImplicitCastExpr", "ParenExpr"):
            return self.expr_stmt(n)
        raise Unsupported(f"C++ statement {k} not supported")

    def st_CompoundStmt(self, n):
        return self.block(n)

    def st_NullStmt(self, n):
        return []

    def st_DeclStmt(self, n):
        out = []
        for d in n.get("inner", []):
            if d.get("kind") != "VarDecl":
                if d.get("kind") in ("TypedefDecl", "TypeAliasDecl", "UsingDecl", "StaticAssertDecl"):
                    continue
                raise Unsupported(f"declaration {d.get('kind')}")
            out += self.vardecl(d)
        return out

    def vardecl(self, d):
        nm = d["name"]
        t = qt(d)
        inits = [c for c in d.get("inner", []) if c.get("kind") not in ("TemplateArgument",)]
        self.locals_declared.add(nm)
        kind = int_kind(t)
        if kind is not None:
            if not inits:
                return [ast.Assign(targets=[ast.Name(id=nm, ctx=ast.Store())], value=self.call("__uninit"))]
            return [ast.Assign(targets=[ast.Name(id=nm, ctx=ast.Store())], value=self.ex(inits[0]))]
        tt = t.replace("const ", "")
        if tt in ("int *", "int *const"):
            init = inits[0] if inits else None
            if init is not None and self._strip(init).get("kind") == "CXXMemberCallExpr":
                callee = self._strip(self._strip(init)["inner"][0])
                key = f"{self._class_of(callee['inner'][0])}::{callee['name']}"
                if key in self.contract.get("ptr_calls", {}):
                    obj = self.ex(callee["inner"][0])
                    return [ast.Assign(targets=[ast.Name(id=nm, ctx=ast.Store())], value=self.contract["ptr_calls"][key](self, obj))]
            if init is None:
                return [ast.Assign(targets=[ast.Name(id=nm, ctx=ast.Store())], value=self.call("__uninit_ptr"))]
            if init.get("kind") == "CXXNewExpr":
                size = init["inner"][0]
                return [ast.Assign(targets=[ast.Name(id=nm, ctx=ast.Store())], value=self.call("__new_int_array", self.ex(size)))]
            return [ast.Assign(targets=[ast.Name(id=nm, ctx=ast.Store())], value=self.ex(init))]
        if tt.startswith("Vector<int>"):
            init = inits[0] if inits else None
            if init is not None and init.get("kind") == "CXXConstructExpr" and len(init.get("inner", [])) == 1:
                return [ast.Assign(targets=[ast.Name(id=nm, ctx=ast.Store())], value=self.call("__new_int_array", self.ex(init["inner"][0])))]
            raise Unsupported(f"Vector<int> initialiser of {nm}")
        if "Matrix<" in tt:
            init = inits[0] if inits else None
            out = self.index_obligations(d)
            if init is not None and init.get("kind") == "CXXConstructExpr" and len(init.get("inner", [])) == 2:
                r, c = init["inner"]
                out.append(ast.Assign(targets=[ast.Name(id=nm + "_rows", ctx=ast.Store())], value=self.ex(r)))
                out.append(ast.Assign(targets=[ast.Name(id=nm + "_cols", ctx=ast.Store())], value=self.ex(c)))
                self.dropped += 1
                return out
            raise Unsupported(f"Matrix initialiser of {nm}")
        cls_name = tt.split("<")[0].strip()
        if cls_name in self.contract.get("object_ctors", {}):
            return self.contract["object_ctors"][cls_name](self, nm, inits[0] if inits else None)
        if "std::vector<std::complex" in t or ("vector<" in t and "complex" in t):
            # only the size of a floating vector is kept (for the bounds obligations of its subscripts)
            self.dropped += 1
            out = self.index_obligations(d)
            init = self._find(inits[0], "CXXConstructExpr") if inits else None
            if init is not None and init.get("inner"):
                out.append(ast.Assign(targets=[ast.Name(id=nm + "_size", ctx=ast.Store())], value=self.ex(init["inner"][0])))
            else:
                raise Unsupported(f"size of the floating vector {nm} is not visible")
            return out
        if tt.startswith("Vector<") and inits and self._find(inits[0], "CXXConstructExpr") is not None:
            # a floating Vector: only its length is kept (an int array of that length stands for it, never read)
            init = self._find(inits[0], "CXXConstructExpr")
            if len(init.get("inner", [])) == 1 and int_kind(qt(init["inner"][0])) is not None:
                self.dropped += 1
                return self.index_obligations(d) + [ast.Assign(targets=[ast.Name(id=nm, ctx=ast.Store())],
                                                               value=self.call("__new_int_array", self.ex(init["inner"][0])))]
        if "*" in t and is_float_type(t) and inits and self._find(inits[0], "CXXNewExpr") is not None:
            # T *p = new T[size] with a floating T: only the size is kept, for the bounds obligations of p[...]
            new = self._find(inits[0], "CXXNewExpr")
            if new.get("isArray") and new.get("inner"):
                self.dropped += 1
                self.float_arrays = getattr(self, "float_arrays", set()) | {nm}
                return self.index_obligations(d) + [ast.Assign(targets=[ast.Name(id=nm + "_size", ctx=ast.Store())], value=self.ex(new["inner"][0]))]
        if is_float_type(t) or "std::string" in t or "basic_string" in t or "TComplex" in t:
            self.dropped += 1
            return self.index_obligations(d)
        raise Unsupported(f"variable {nm} of type {t}")

    def expr_stmt(self, n):
        k = n.get("kind")
        if k in ("ExprWithCleanups", "ParenExpr"):
            return self.expr_stmt(n["inner"][0])
        t = qt(n)
        if k == "BinaryOperator" and n["opcode"] == "=":
            lhs, rhs = n["inner"]
            if is_float_type(qt(lhs)):
                self.dropped += 1
                return self.index_obligations(n)
            return [ast.Assign(targets=[self.lvalue(lhs)], value=self.ex(rhs))]
        if k == "CompoundAssignOperator":
            lhs, rhs = n["inner"]
            if is_float_type(qt(lhs)) or is_float_type(qt(rhs)):
                self.dropped += 1
                return self.index_obligations(n)
            op = n["opcode"][:-1]
            kind = int_kind(qt(lhs))
            l_load = self.ex(lhs)
            if op in self.BIN:
                val = ast.BinOp(left=l_load, op=self.BIN[op](), right=self.ex(rhs))
            elif op == "/":
                val = self.call("__cdiv", l_load, self.ex(rhs))
            elif op == "^":
                val = self.call("__xor01", l_load, self.ex(rhs))
            elif op == "%":
                val = self.call("__cmod", l_load, self.ex(rhs))
            else:
                raise Unsupported(f"compound operator {n['opcode']}")
            return [ast.Assign(targets=[self.lvalue(lhs)], value=self.wrap(kind, val))]
        if k == "UnaryOperator" and n["opcode"] in ("++", "--"):
            lhs = n["inner"][0]
            kind = int_kind(qt(lhs))
            op = ast.Add() if n["opcode"] == "++" else ast.Sub()
            return [ast.Assign(targets=[self.lvalue(lhs)], value=self.wrap(kind, ast.BinOp(left=self.ex(lhs), op=op, right=self.const(1))))]
        if k == "CXXOperatorCallExpr":
            opname = self._callee_name(n["inner"][0])
            args = n["inner"][1:]
            if opname == "operator=":
                lhs, rhs = args
                lt = qt(lhs)
                if "Matrix" in lt:
                    l, r = self.ex(lhs), self.ex(rhs)
                    self.dropped += 1
                    return [ast.Assign(targets=[ast.Name(id=l.id + "_rows", ctx=ast.Store())], value=self.name(r.id + "_rows")),
                            ast.Assign(targets=[ast.Name(id=l.id + "_cols", ctx=ast.Store())], value=self.name(r.id + "_cols"))]
                if "Vector<int>" in lt:
                    return [ast.Assign(targets=[self.lvalue(lhs)], value=self.ex(rhs))]
            if is_float_type(t) or any(is_float_type(qt(a)) for a in args):
                self.dropped += 1
                return self.index_obligations(n)
            raise Unsupported(f"operator statement {opname}")
        if k in ("CallExpr", "CXXMemberCallExpr"):
            nm = self._callee_name(n["inner"][0])
            key = nm
            if k == "CXXMemberCallExpr":
                callee = n["inner"][0]
                while callee.get("kind") in ("ImplicitCastExpr", "ParenExpr"):
                    callee = callee["inner"][0]
                key = f"{self._class_of(callee['inner'][0])}::{nm}"
            if key in self.contract.get("stmt_calls", {}):
                return self.contract["stmt_calls"][key](self, n)
            if key in self.contract.get("ignored_calls", ()):
                self.dropped += 1
                return self.index_obligations(n)
            if is_float_type(t):
                self.dropped += 1
                return self.index_obligations(n)
            return [self.stmt_expr(self.ex(n))]
        if k == "ImplicitCastExpr":
            return self.expr_stmt(n["inner"][0])
        raise Unsupported(f"expression statement {k}")

    def lvalue(self, n):
        e = self.ex(n)
        if isinstance(e, ast.Name):
            return ast.Name(id=e.id, ctx=ast.Store())
        if isinstance(e, ast.Subscript):
            return ast.Subscript(value=e.value, slice=e.slice, ctx=ast.Store())
        raise Unsupported("assignment target")

    def index_obligations(self, n):
        """bounds obligations for the index expressions inside a dropped floating statement"""
        out = []

        def walk(x):
            k = x.get("kind")
            if k == "CXXOperatorCallExpr":
                opname = self._callee_name(x["inner"][0])
                args = x["inner"][1:]
                if opname == "operator()" and len(args) == 3 and "Matrix" in qt(args[0]):
                    try:
                        m = self.ex(args[0])
                        r, c = self.ex(args[1]), self.ex(args[2])
                        out.append(self.obligation(ast.BoolOp(op=ast.And(), values=[
                            ast.Compare(left=self.const(0), ops=[ast.LtE(), ast.Lt()], comparators=[r, self.name(m.id + "_rows")]),
                            ast.Compare(left=self.const(0), ops=[ast.LtE(), ast.Lt()], comparators=[c, self.name(m.id + "_cols")])]),
                            f"matrix-index-in-bounds {m.id}"))
                        self.bounds += 1
                    except Unsupported as e:
                        raise Unsupported(f"index expression of a dropped floating statement cannot be translated: {e}")
                elif opname == "operator[]" and len(args) == 2:
                    try:
                        base = self.ex(args[0])
                        idx = self.ex(args[1])
                        bt = qt(args[0])
                        if "Matrix" in bt and isinstance(base, ast.Name):
                            size = ast.BinOp(left=self.name(base.id + "_rows"), op=ast.Mult(), right=self.name(base.id + "_cols"))
                        elif "std::vector" in bt and isinstance(base, ast.Name):
                            size = self.name(base.id + "_size")
                        else:
                            size = self.call("len", base)
                        out.append(self.obligation(ast.Compare(left=self.const(0), ops=[ast.LtE(), ast.Lt()], comparators=[idx, size]),
                                                   f"index-in-bounds {ast.unparse(base)}"))
                        self.bounds += 1
                    except Unsupported as e:
                        raise Unsupported(f"index expression of a dropped floating statement cannot be translated: {e}")
            elif k == "ArraySubscriptExpr":
                base_n = self._strip(x["inner"][0])
                if base_n.get("kind") == "DeclRefExpr" and is_float_type(qt(x)):
                    nm = base_n["referencedDecl"]["name"]
                    if nm not in getattr(self, "float_arrays", set()):
                        raise Unsupported(f"subscript of the floating pointer {nm} whose size is not known")
                    idx = self.ex(x["inner"][1])
                    out.append(self.obligation(ast.Compare(left=self.const(0), ops=[ast.LtE(), ast.Lt()], comparators=[idx, self.name(nm + "_size")]),
                                               f"index-in-bounds {nm}"))
                    self.bounds += 1
            for c in x.get("inner", []) or []:
                walk(c)

        walk(n)
        return out

    def st_ReturnStmt(self, n):
        inner = n.get("inner", [])
        if not inner:
            return [ast.Return(value=None)]
        if is_float_type(qt(inner[0])):
            self.dropped += 1
            return self.index_obligations(inner[0]) + [ast.Return(value=self.const(0))]
        return [ast.Return(value=self.ex(inner[0]))]

    def st_IfStmt(self, n):
        inner = n["inner"]
        cond, then = inner[0], inner[1]
        els = inner[2] if len(inner) > 2 else None
        if self.has_float_dependency(cond):
            if not self.contract.get("float_branches_nondet"):
                raise Unsupported("branch condition depends on a floating value")
            # safety-only mode: the outcome of a floating comparison is arbitrary; BOTH branches are verified
            # (the subscripts inside the condition keep their bounds obligations)
            self.nondet_branches = getattr(self, "nondet_branches", 0) + 1
            return self.index_obligations(cond) + [
                ast.If(test=ast.Compare(left=self.call("__uninit"), ops=[ast.NotEq()], comparators=[self.const(0)]),
                       body=self.block_of(then) or [ast.Pass()], orelse=self.block_of(els) if els else [])]
        pre = []
        handler = self._cond_handler(cond)
        if handler is not None:
            pre, test = handler(self, self._strip(cond))
        else:
            test = self.truth(cond)
        return pre + [ast.If(test=test, body=self.block_of(then) or [ast.Pass()], orelse=self.block_of(els) if els else [])]

    def _strip(self, n):
        while n.get("kind") in ("ImplicitCastExpr", "ParenExpr", "ExprWithCleanups"):
            n = n["inner"][0]
        return n

    def _cond_handler(self, cond):
        n = self._strip(cond)
        if n.get("kind") == "CXXMemberCallExpr":
            callee = self._strip(n["inner"][0])
            key = f"{self._class_of(callee['inner'][0])}::{callee['name']}"
            return self.contract.get("cond_calls", {}).get(key)
        return None

    def block_of(self, n):
        if n is None:
            return []
        if n.get("kind") == "CompoundStmt":
            return self.block(n)
        return self.st(n)

    def has_float_dependency(self, n):
        if is_float_type(qt(n)) and n.get("kind") not in ("DeclRefExpr",):
            return True
        return any(self.has_float_dependency(c) for c in n.get("inner", []) or [] if isinstance(c, dict) and c.get("kind"))

    def st_ForStmt(self, n):
        init, _condvar, cond, inc, body = n["inner"]
        out = []
        if init and init.get("kind"):
            out += self.st(init)
        if cond and cond.get("kind") and self.has_float_dependency(cond):
            raise Unsupported("loop condition depends on a floating value")
        test = self.truth(cond) if cond and cond.get("kind") else self.const(True)
        b = self.block_of(body)
        if inc and inc.get("kind"):
            b += self.expr_stmt(inc)
        out.append(ast.While(test=test, body=b or [ast.Pass()], orelse=[]))
        return out

    def st_WhileStmt(self, n):
        cond, body = n["inner"][-2], n["inner"][-1]
        if self.has_float_dependency(cond):
            raise Unsupported("loop condition depends on a floating value")
        return [ast.While(test=self.truth(cond), body=self.block_of(body) or [ast.Pass()], orelse=[])]

    def st_BreakStmt(self, n):
        return [ast.Break()]

    def st_ContinueStmt(self, n):
        raise Unsupported("continue")

    def st_CXXThrowExpr(self, n):
        return [ast.Raise(exc=self.call("CppException"), cause=None)]

    def st_OMPParallelForDirective(self, n):
        # the associated loop is the (captured) ForStmt: verified for an arbitrary iteration as a sequential loop;
        # non-interference is checked separately (writes_outside_loop_body)
        loop = self._find(n, "ForStmt")
        if loop is None:
            raise Unsupported("omp parallel for without a for loop")
        return self.st_ForStmt(loop)

    def _find(self, n, kind):
        if n.get("kind") == kind:
            return n
        for c in n.get("inner", []) or []:
            r = self._find(c, kind)
            if r is not None:
                return r
        return None

    def st_CXXDeleteExpr(self, n):
        return []

    def st_CXXForRangeStmt(self, n):
        # only used for floating accumulation in the kernels: must not contain integer effects
        self.dropped += 1
        return []


def translate(func_node, contract):
    """-> (python FunctionDef, translator)"""
    tr = Translator(contract)
    params = [c["name"] for c in func_node.get("inner", []) if c.get("kind") == "ParmVarDecl" and c.get("name")]
    body_node = next(c for c in func_node["inner"] if c.get("kind") == "CompoundStmt")
    body = tr.block(body_node) or [ast.Pass()]
    fn = ast.FunctionDef(name=func_node["name"], args=ast.arguments(posonlyargs=[], args=[ast.arg(arg=p) for p in params],
                                                                   kwonlyargs=[], kw_defaults=[], defaults=[]),
                         body=body, decorator_list=[], returns=None, type_params=[])
    mod = ast.Module(body=[fn], type_ignores=[])
    ast.fix_missing_locations(mod)
    return fn, tr


def slice_function(py: ast.FunctionDef, start_pred=None, stop_pred=None, name=None, params=()):
    """mechanical slice of the translated body: top-level statements from the first one satisfying
    start_pred (inclusive; default: beginning) up to the first one satisfying stop_pred (exclusive)"""
    body = py.body
    a = 0
    if start_pred is not None:
        a = next(i for i, s in enumerate(body) if start_pred(s))
    b = len(body)
    if stop_pred is not None:
        b = next(i for i, s in enumerate(body) if stop_pred(s))
    fn = ast.FunctionDef(name=name or py.name, args=ast.arguments(posonlyargs=[], args=[ast.arg(arg=p) for p in params],
                                                                  kwonlyargs=[], kw_defaults=[], defaults=[]),
                         body=body[a:b] or [ast.Pass()], decorator_list=[], returns=None, type_params=[])
    ast.fix_missing_locations(ast.Module(body=[fn], type_ignores=[]))
    return fn
