/* Declarations only: lets clang 14 (which has no omp.h here and rejects GCC's) parse the OpenMP configuration of the
   kernels for the AST dump.  The functions are given contracts in contracts/C04_native.py (arbitrary schedule). */
#ifndef VF_OMP_STUB_H
#define VF_OMP_STUB_H
#ifdef __cplusplus
extern "C" {
#endif
int omp_get_thread_num(void);
int omp_get_num_threads(void);
int omp_get_max_threads(void);
int omp_get_num_procs(void);
void omp_set_num_threads(int);
#ifdef __cplusplus
}
#endif
#endif
