// ctypes shim around the REAL kernels of /repo/src (compiled together with them on every run).
// std::thread::hardware_concurrency is interposed so that a check can force any value the C++ standard permits.
#include <complex>
#include <cstdint>
#include <thread>
#include <string>
#include "matrix.hpp"
#include "permanent.hpp"
#include "permanent_laplace.hpp"
#include "n_aryGrayCodeCounter.hpp"

static long g_forced_threads = -1;

unsigned int std::thread::hardware_concurrency() noexcept
{
    if (g_forced_threads >= 0)
        return static_cast<unsigned int>(g_forced_threads);
    return 16;
}

extern "C"
{
    void force_threads(long n) { g_forced_threads = n; }

    // A: row-major n x m complex (re, im interleaved); returns 0 on success, 1 on a thrown error
    int perm(const double *a, int n, int m, const int *rows, const int *cols, double *out)
    {
        Matrix<std::complex<double>> A(n, m);
        for (int i = 0; i < n * m; i++)
            A[i] = std::complex<double>(a[2 * i], a[2 * i + 1]);
        Vector<int> r(n), c(m);
        for (int i = 0; i < n; i++) r[i] = rows[i];
        for (int j = 0; j < m; j++) c[j] = cols[j];
        try
        {
            std::complex<double> p = permanent_cpp<double>(A, r, c);
            out[0] = p.real();
            out[1] = p.imag();
        }
        catch (std::string &)
        {
            return 1;
        }
        return 0;
    }

    int perm_laplace(const double *a, int n, int m, const int *rows, const int *cols, double *out)
    {
        Matrix<std::complex<double>> A(n, m);
        for (int i = 0; i < n * m; i++)
            A[i] = std::complex<double>(a[2 * i], a[2 * i + 1]);
        Vector<int> r(n), c(m);
        for (int i = 0; i < n; i++) r[i] = rows[i];
        for (int j = 0; j < m; j++) c[j] = cols[j];
        try
        {
            Vector<std::complex<double>> p = permanent_laplace_cpp<double>(A, r, c);
            for (size_t j = 0; j < p.size(); j++)
            {
                out[2 * j] = p[j].real();
                out[2 * j + 1] = p[j].imag();
            }
        }
        catch (std::string &)
        {
            return 1;
        }
        return 0;
    }

    // Gray counter: start at offset t0, write the initial code, then `steps` times next(); each record is
    // [ret, changed_index, prev, value, code...]
    int gray_run(int *limits, int n, long t0, long steps, int *out)
    {
        n_aryGrayCodeCounter gc(limits, static_cast<size_t>(n), static_cast<int64_t>(t0));
        int *code = gc.get();
        int k = 0;
        for (int i = 0; i < n; i++) out[k++] = code[i];
        for (long s = 0; s < steps; s++)
        {
            int ci = 0, pv = 0, v = 0;
            int ret = gc.next(ci, pv, v);
            out[k++] = ret;
            out[k++] = ci;
            out[k++] = pv;
            out[k++] = v;
            for (int i = 0; i < n; i++) out[k++] = code[i];
        }
        return k;
    }
}
