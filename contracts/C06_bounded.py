"""Bounded cross-check for C06 (rtc): the real (jitted) enumeration / index / dimension functions
against an independent itertools enumeration.  Validates the spec functions used by the proofs
(C, S, RK) and the engine; reported under coverage.bounded, never counted as proved."""
from __future__ import annotations

import itertools
import math

import numpy as np


def spec_C(n, k):
    return math.comb(n, k) if 0 <= k <= n else 0


def spec_S(v, k):
    d = len(v)
    return sum(v[d - 1 - j] for j in range(k + 1))


def spec_RK(v, k):
    return sum(spec_C(spec_S(v, j) + j, j + 1) for j in range(k))


def reference_basis(d, cutoff):
    """particle number ascending; anti-lexicographic (descending lexicographic) inside a sector"""
    out = []
    for n in range(cutoff):
        sector = [v for v in itertools.product(range(n + 1), repeat=d) if sum(v) == n]
        sector.sort(reverse=True)
        out.extend(sector)
    return out


def check(run):
    from piquasso._math import combinatorics as cb
    from piquasso._math import fock, indices
    from piquasso.fermionic import _utils as fu

    fails = []

    def expect(cond, what, witness):
        if not cond:
            fails.append((what, witness))

    evaluations = 0
    distinct = set()
    dmax, cmax = (5, 6) if run.tier == "quick" else (7, 9)
    for d in range(1, dmax + 1):
        for c in range(1, cmax + 1):
            basis = np.array(fock.nb_get_fock_space_basis(d, c))
            ref = reference_basis(d, c)
            expect(basis.shape == (len(ref), d), "basis shape = number of vectors below the cutoff", (d, c))
            expect([tuple(int(x) for x in r) for r in basis] == ref,
                   "basis = every vector once, by particle number then anti-lexicographic", (d, c))
            expect(int(fock.cutoff_fock_space_dim(c, d)) == len(ref), "cutoff_fock_space_dim = size", (d, c))
            idx = [int(indices.get_index_in_fock_space(basis[r])) for r in range(len(basis))]
            expect(idx == list(range(len(basis))), "get_index_in_fock_space(basis[r]) = r", (d, c))
            expect(idx == [spec_RK(tuple(int(x) for x in basis[r]), d) for r in range(len(basis))],
                   "index = RK_d (spec function used by the proof)", (d, c))
            arr = indices.get_index_in_fock_space_array(basis)
            expect(list(map(int, arr)) == idx, "vectorised index = scalar index", (d, c))
            start = 0
            for n in range(c):
                size = int(fock.symmetric_subspace_cardinality(d, n))
                sector = basis[start:start + size]
                expect(all(int(s.sum()) == n for s in sector), "sector rows have n particles", (d, c, n))
                sub = [int(indices.get_index_in_fock_subspace(s)) for s in sector]
                expect(sub == list(range(size)), "get_index_in_fock_subspace = position inside the sector", (d, c, n))
                if size:
                    expect(list(map(int, indices.get_index_in_fock_subspace_array(sector))) == sub,
                           "vectorised subspace index = scalar", (d, c, n))
                    part = cb.partitions(d, n)
                    expect(np.array_equal(part, sector), "partitions(d, n) = the sector", (d, n))
                start += size
            expect(start == len(basis), "sectors tile the basis", (d, c))
            evaluations += len(basis)
            distinct.add((d, c))
    # comb against math.comb, including the symmetric and out-of-range cases
    for n in range(-2, 40):
        for k in range(-2, 42):
            expect(int(cb.comb(n, k)) == spec_C(n, k), "comb = C", (n, k))
            evaluations += 1
    # random large occupation vectors whose index still fits 32 bits
    rng = np.random.default_rng(run.seed + 6)
    big = 0
    while big < (200 if run.tier == "quick" else 3000):
        d = int(rng.integers(1, 9))
        v = tuple(int(x) for x in rng.integers(0, [2000, 300, 60, 30, 14, 10, 8, 6][d - 1], size=d))
        r = spec_RK(v, d)
        if r >= 2 ** 31:
            continue
        big += 1
        got = int(indices.get_index_in_fock_space(np.array(v, dtype=np.int64)))
        expect(got == r, "index of a large occupation vector = RK_d", v)
        expect(int(indices.get_index_in_fock_space_array(np.array([v], dtype=np.int32))[0]) == r,
               "vectorised index of a large occupation vector", v)
        evaluations += 1
        distinct.add(v)
    # many modes, few particles (the vectorised binomial used to overflow from 64 modes on: fixed by 867e933)
    for d in ((64, 70, 100) if run.tier == "quick" else (40, 63, 64, 65, 70, 100, 150, 250)):
        basis = np.array(fock.nb_get_fock_space_basis(d, 3))
        expect(np.array_equal(indices.get_index_in_fock_space_array(basis), np.arange(len(basis))),
               "vectorised index = position, many modes", (d, 3))
        expect(all(int(indices.get_index_in_fock_space(basis[r])) == r for r in range(0, len(basis), 37)),
               "scalar index = position, many modes", (d, 3))
        sector = basis[1 + d:]
        expect(np.array_equal(indices.get_index_in_fock_subspace_array(sector), np.arange(len(sector))),
               "vectorised subspace index = position, many modes", (d, 2))
        evaluations += len(basis)
        distinct.add(("many-modes", d))
    # fermionic
    fd = 7 if run.tier == "quick" else 10
    for d in range(1, fd + 1):
        basis = np.array(fu.get_fock_space_basis(d, d + 1))
        ref = []
        for n in range(d + 1):
            sector = [v for v in itertools.product((0, 1), repeat=d) if sum(v) == n]
            sector.sort(reverse=True)
            ref.extend(sector)
        expect(sorted(tuple(int(x) for x in r) for r in basis) == sorted(ref), "fermionic basis = every 0/1 vector once", d)
        expect([int(r.sum()) for r in basis] == sorted(int(r.sum()) for r in basis), "fermionic basis ordered by particle number", d)
        expect([int(fu.get_fock_space_index(r)) for r in basis] == list(range(len(basis))),
               "fermionic get_fock_space_index(basis[r]) = r", d)
        expect(len(basis) == 2 ** d == int(fu.get_cutoff_fock_space_dimension(d, d + 1)), "fermionic dimension", d)
        for c in range(0, d + 2):
            expect(int(fu.get_cutoff_fock_space_dimension(d, c)) == sum(spec_C(d, k) for k in range(c)),
                   "fermionic cutoff dimension = sum_k C(d,k)", (d, c))
        evaluations += len(basis)
        distinct.add(("fermionic", d))
    if fails:
        what, wit = fails[0]
        run.failed(f"C06/bounded/{what}", "rtc", "exhaustive-enumeration",
                   what=f"{len(fails)} bounded check(s) fail on the real functions; first: {what} at {wit}",
                   counterexample={"witness": repr(wit), "all": [(w, repr(x)) for w, x in fails[:10]]},
                   replay={"kind": "rtc", "module": "contracts.C06_bounded"}, reproduced=True,
                   observed={"failures": len(fails)})
    run.bounded_result("C06/bounded/exhaustive-enumeration-vs-real-functions",
                       domain=f"bosonic d<={dmax}, cutoff<={cmax} exhaustive; fermionic d<={fd} exhaustive; comb on [-2,40)x[-2,42); "
                              f"{big} random large occupation vectors with index < 2^31",
                       bound="exhaustive inside the stated box", evaluations=evaluations, distinct=len(distinct),
                       failures=len(fails))
    return fails
