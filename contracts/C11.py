"""C11 - seeded runs are reproducible and independent of parallel scheduling (DESIGN 5/C11).

Deductive part (frames, AST of the real source):
  R1  reads: no function on the sampling call graph reads or writes process-global random state;
  R2  relational: in the two per-shot samplers the dask branch and the sequential branch run the
      same function on the same seed schedule seed+0 .. seed+shots-1 and collect positionally;
  R3  per-shot purity: the per-shot function draws only from the generator built from its seed -
      callbacks handed to the per-shot samplers contain no draw from a captured generator;
  R4  Config.copy shares `rng` and does not reseed; Result.samples shuffles with a local Random.
Native part (cppvc, C11/native/*): job ranges tile [0, idx_max) for every thread count.
Bounded stand-in (rtc): same seed -> same samples on every simulator, with and without dask,
with other Config objects created in between.
"""
from __future__ import annotations

import ast
import json
import os

from vf.common import REPO
from vf.frames import Analysis

RNG_METHODS = {"uniform", "random", "choice", "normal", "integers", "multivariate_normal", "shuffle", "permutation",
               "binomial", "poisson", "standard_normal", "exponential", "choices", "randint", "sample", "gauss", "randrange"}


def step_and_sampling_roots(A: Analysis):
    roots = []
    for f in A.funcs.values():
        if "simulation_steps" in f.relpath and "." not in f.qualname and len(f.params) >= 2 and f.params[1] == "instruction":
            roots.append(f.id)
    roots += ["piquasso/api/result.py:Result.samples", "piquasso/api/simulator.py:Simulator.execute",
              "piquasso/api/simulator.py:Simulator.execute_instructions", "piquasso/api/simulator.py:Simulator.__init__",
              "piquasso/api/config.py:Config.__init__", "piquasso/api/config.py:Config.copy",
              "piquasso/api/state.py:State.__init__"]
    return [r for r in roots if r in A.funcs]


def r1_global_rng(run, A: Analysis):
    roots = step_and_sampling_roots(A)
    reach = {r: A.reachable([r]) for r in roots}
    users = [(f, e) for f in A.funcs.values() for e in f.rng]
    for f, e in users:
        oname = f"C11/reads/no-process-global-rng/{f.id.split(':')[1]}/{e['call']}"
        by = sorted(r for r, s in reach.items() if f.id in s)
        if not by:
            run.discharged(oname, "frames", "call-graph-reachability", 0.0, function=f.id,
                           sample={"site": e, "note": "not reachable from any sampling root (dead code)"})
            continue
        rep = replay_interleaved_config()
        run.failed(oname, "frames", "call-graph-reachability",
                   what=f"{f.id} line {e['line']} {e['mode']}s process-global random state via {e['call']} and is reachable "
                        f"from {len(by)} sampling root(s), e.g. {by[:3]}",
                   counterexample={"site": e, "reachable_from": by[:10]}, replay={"kind": "interleaved-config"},
                   reproduced=rep.get("reproduced", False), observed=rep)
    if not users:
        run.discharged("C11/reads/no-process-global-rng/package-wide", "frames", "call-graph-reachability", 0.0)
    return roots


def replay_interleaved_config():
    """same seed, same program; in the second run another Config() is created between simulator
    construction and execution"""
    import piquasso as pq

    def prog(pure):
        prep = ([pq.StateVector([1, 1, 0]) * (1 / 2 ** 0.5), pq.StateVector([0, 1, 1]) * (1 / 2 ** 0.5)] if pure else
                [pq.DensityMatrix(ket=(1, 1, 0), bra=(1, 1, 0)) * 0.5, pq.DensityMatrix(ket=(0, 1, 1), bra=(0, 1, 1)) * 0.5])
        return pq.Program(instructions=prep + [pq.Beamsplitter(theta=0.7).on_modes(0, 1), pq.Beamsplitter(theta=0.4).on_modes(1, 2),
                                               pq.ParticleNumberMeasurement()])

    out = {}
    for name, cls, pure in (("PureFockSimulator", pq.PureFockSimulator, True), ("FockSimulator", pq.FockSimulator, False)):
        try:
            s1 = cls(d=3, config=pq.Config(seed_sequence=42, cutoff=4))
            a = s1.execute(prog(pure), shots=20).samples
            s2 = cls(d=3, config=pq.Config(seed_sequence=42, cutoff=4))
            pq.Config()
            b = s2.execute(prog(pure), shots=20).samples
            out[name] = {"identical": a == b}
        except Exception as e:
            out[name] = {"error": repr(e)[:200]}
    out["reproduced"] = any(v.get("identical") is False for v in out.values() if isinstance(v, dict))
    return out


# ---------------------------------------------------------------------------------- R2
PER_SHOT = [
    ("piquasso/_simulators/passive/sampling.py", "_generate_samples"),
    ("piquasso/_simulators/gaussian/simulation_steps.py", "_get_particle_number_measurement_samples"),
]


def _find(tree, name):
    for n in ast.walk(tree):
        if isinstance(n, ast.FunctionDef) and n.name == name:
            return n
    return None


def r2_relational(run):
    for rel, fname in PER_SHOT:
        oname = f"C11/relational/dask=sequential-seed-schedule/{fname}"
        tree = ast.parse(open(os.path.join(REPO, rel)).read())
        fn = _find(tree, fname)
        if fn is None:
            run.undecided_ob(oname, "frames", "ast-relational", "function not found")
            continue
        run.function(f"{rel}:{fname}", ast.unparse(fn))
        branch = next((s for s in ast.walk(fn) if isinstance(s, ast.If) and ast.unparse(s.test) == "config.use_dask"), None)
        if branch is None:
            run.undecided_ob(oname, "frames", "ast-relational", "no `if config.use_dask` branch: contract no longer binds")
            continue
        problems = []

        def loops(stmts):
            return [s for st in stmts for s in ast.walk(st) if isinstance(s, ast.For)]

        dloops = loops(branch.body)
        seq_stmts = branch.orelse if branch.orelse else fn.body[fn.body.index(branch) + 1:] if branch in fn.body else []
        sloops = loops(seq_stmts)
        if len(dloops) != 1 or len(sloops) != 1:
            problems.append(f"expected one loop per branch, found {len(dloops)} / {len(sloops)}")
        else:
            dl, sl = dloops[0], sloops[0]
            if ast.unparse(dl.iter) != "range(shots)" or ast.unparse(sl.iter) != "range(shots)":
                problems.append(f"loop ranges differ from range(shots): {ast.unparse(dl.iter)} / {ast.unparse(sl.iter)}")
            if ast.unparse(dl.target) != ast.unparse(sl.target):
                problems.append("loop variables differ")
            dcalls = [c for c in ast.walk(dl) if isinstance(c, ast.Call) and any(k.arg == "seed" for k in c.keywords)]
            scalls = [c for c in ast.walk(sl) if isinstance(c, ast.Call) and any(k.arg == "seed" for k in c.keywords)]
            if len(dcalls) != 1 or len(scalls) != 1:
                problems.append("expected exactly one seeded call per loop")
            else:
                dseed = ast.unparse(next(k.value for k in dcalls[0].keywords if k.arg == "seed"))
                sseed = ast.unparse(next(k.value for k in scalls[0].keywords if k.arg == "seed"))
                if dseed != sseed:
                    problems.append(f"seed schedules differ: dask uses `{dseed}`, sequential uses `{sseed}`")
                if dseed.replace(" ", "") not in ("seed+idx", "idx+seed"):
                    problems.append(f"seed schedule `{dseed}` is not seed + idx (distinct seeds per shot)")
                dfunc = ast.unparse(dcalls[0].func)
                sfunc = ast.unparse(scalls[0].func)
                # delayed_func must be dask.delayed(<the sequential function>)
                wrap = [s for s in ast.walk(branch) if isinstance(s, ast.Assign) and ast.unparse(s.targets[0]) == dfunc]
                if not wrap or ast.unparse(wrap[0].value) != f"dask.delayed({sfunc})":
                    problems.append(f"dask branch calls `{dfunc}`, which is not dask.delayed({sfunc})")
                if len(dcalls[0].args) or len(scalls[0].args) or len(dcalls[0].keywords) != 1 or len(scalls[0].keywords) != 1:
                    problems.append("per-shot calls take arguments other than the seed")
            # positional collection
            if "dask.compute(*compute_list)" not in ast.unparse(branch):
                problems.append("results are not collected with dask.compute(*compute_list)")
            apps = [c for c in ast.walk(dl) if isinstance(c, ast.Call) and ast.unparse(c.func) == "compute_list.append"]
            if len(apps) != 1:
                problems.append("compute_list is not filled by exactly one append per iteration")
        seed_assign = [s for s in ast.walk(fn) if isinstance(s, ast.Assign) and ast.unparse(s.targets[0]) == "seed"]
        if len(seed_assign) != 1 or ast.unparse(seed_assign[0].value) != "config.seed_sequence":
            problems.append("`seed` is not the single assignment seed = config.seed_sequence")
        if not problems:
            run.discharged(oname, "frames", "ast-relational", 0.0, function=f"{rel}:{fname}",
                           sample={"seed_schedule": "seed + idx", "range": "range(shots)"})
        else:
            rep = replay_dask(fname)
            run.failed(oname, "frames", "ast-relational", what="; ".join(problems), counterexample={"problems": problems},
                       replay={"kind": "dask-vs-sequential", "function": fname}, reproduced=rep.get("reproduced", False),
                       observed=rep)


def replay_dask(which=None, lossy=False):
    import piquasso as pq
    import numpy as np

    out = {}

    def run_sampling(use_dask, seed=7):
        cfg = pq.Config(seed_sequence=seed, use_dask=use_dask)
        U = np.array([[0.6, 0.8, 0], [-0.8, 0.6, 0], [0, 0, 1]], dtype=complex)
        ins = [pq.StateVector([1, 1, 0]), pq.Interferometer(U), pq.Beamsplitter(theta=0.9).on_modes(1, 2)]
        if lossy:
            ins.append(pq.UniformLoss(0.8))
        ins.append(pq.ParticleNumberMeasurement())
        return pq.SamplingSimulator(d=3, config=cfg).execute_instructions(ins, shots=12).samples

    def run_gaussian(use_dask, seed=7):
        cfg = pq.Config(seed_sequence=seed, use_dask=use_dask, measurement_cutoff=4)
        ins = [pq.Vacuum(), pq.Squeezing(r=0.4).on_modes(0), pq.Squeezing(r=0.3).on_modes(1),
               pq.Beamsplitter(theta=0.6).on_modes(0, 1), pq.ParticleNumberMeasurement()]
        return pq.GaussianSimulator(d=2, config=cfg).execute_instructions(ins, shots=8).samples

    for name, fn in (("SamplingSimulator", run_sampling), ("GaussianSimulator", run_gaussian)):
        try:
            a, b, c = fn(False), fn(True), fn(True)
            out[name] = {"sequential==dask": sorted(a) == sorted(b), "dask==dask": sorted(b) == sorted(c)}
        except Exception as e:
            out[name] = {"error": repr(e)[:200]}
    out["reproduced"] = any(isinstance(v, dict) and (v.get("sequential==dask") is False or v.get("dask==dask") is False)
                            for v in out.values())
    return out


# ---------------------------------------------------------------------------------- R3
def r3_callbacks(run):
    """callables handed to the per-shot samplers (keyword arguments whose value is a lambda / local
    def) must not draw from a captured generator"""
    rel = "piquasso/_simulators/passive/simulation_steps.py"
    tree = ast.parse(open(os.path.join(REPO, rel)).read())
    found = 0
    bad = []
    for call in ast.walk(tree):
        if not isinstance(call, ast.Call):
            continue
        cname = ast.unparse(call.func)
        if not cname.startswith("generate_"):
            continue
        for k in call.keywords:
            if isinstance(k.value, ast.Lambda):
                found += 1
                params = {a.arg for a in k.value.args.args}
                for c in ast.walk(k.value.body):
                    if isinstance(c, ast.Call) and isinstance(c.func, ast.Attribute) and c.func.attr in RNG_METHODS:
                        recv = c.func.value
                        root = recv
                        while isinstance(root, ast.Attribute):
                            root = root.value
                        if not (isinstance(root, ast.Name) and root.id in params):
                            bad.append({"callee": cname, "argument": k.arg, "line": k.value.lineno,
                                        "draw": ast.unparse(c), "captured": ast.unparse(recv)})
    oname = "C11/per-shot-purity/callbacks-draw-only-from-the-per-shot-generator"
    if found == 0:
        run.undecided_ob(oname, "frames", "ast-closure-analysis", "no callback arguments found: contract no longer binds")
    elif not bad:
        run.discharged(oname, "frames", "ast-closure-analysis", 0.0, sample={"callbacks": found})
    else:
        rep = replay_dask(lossy=True)
        run.failed(oname, "frames", "ast-closure-analysis",
                   what=f"callback `{bad[0]['argument']}` passed to {bad[0]['callee']} (line {bad[0]['line']}) draws "
                        f"`{bad[0]['draw']}` from the captured generator `{bad[0]['captured']}`: the per-shot function is not "
                        "a function of its seed (dask runs are not reproducible)",
                   counterexample={"callbacks": bad}, replay={"kind": "dask-vs-sequential", "lossy": True},
                   reproduced=rep.get("reproduced", False), observed=rep)
    # the per-shot functions themselves: generator methods are only called on `rng` parameters / locals
    srel = "piquasso/_simulators/passive/sampling.py"
    stree = ast.parse(open(os.path.join(REPO, srel)).read())
    shared = []
    for fn in ast.walk(stree):
        if not isinstance(fn, ast.FunctionDef):
            continue
        params = {a.arg for a in fn.args.args + fn.args.kwonlyargs}
        if "rng" not in params:
            continue
        for c in ast.walk(fn):
            if isinstance(c, ast.Call) and isinstance(c.func, ast.Attribute) and c.func.attr in RNG_METHODS:
                recv = ast.unparse(c.func.value)
                if recv != "rng":
                    shared.append({"function": fn.name, "line": c.lineno, "draw": ast.unparse(c)[:80]})
    oname = "C11/per-shot-purity/functions-with-an-rng-parameter-draw-only-from-it"
    if not shared:
        run.discharged(oname, "frames", "ast-closure-analysis", 0.0)
    else:
        run.failed(oname, "frames", "ast-closure-analysis", what=f"draw from another generator inside a per-shot function: {shared[0]}",
                   counterexample={"draws": shared}, replay={"kind": "dask-vs-sequential"}, reproduced=False)


# ---------------------------------------------------------------------------------- R4
def r4_config_and_result(run, A: Analysis):
    path = os.path.join(REPO, "piquasso/api/config.py")
    tree = ast.parse(open(path).read())
    cls = next(n for n in tree.body if isinstance(n, ast.ClassDef) and n.name == "Config")
    copy = next(n for n in cls.body if isinstance(n, ast.FunctionDef) and n.name == "copy")
    src = ast.unparse(copy)
    oname = "C11/config/copy-shares-rng-and-does-not-reseed"
    ok = ("config_copy.rng = self.rng" in src and "seed_sequence =" not in src and "default_rng" not in src
          and "copy.deepcopy(self)" in src)
    run.function("piquasso/api/config.py:Config.copy", src)
    if ok:
        run.discharged(oname, "frames", "ast-shape", 0.0)
    else:
        run.failed(oname, "frames", "ast-shape", what="Config.copy does not share the generator of the original (or reseeds)",
                   counterexample={"source": src}, replay={"kind": "none"}, reproduced=False)
    f = A.funcs.get("piquasso/api/result.py:Result.samples")
    oname = "C11/result/samples-shuffle-uses-a-local-seeded-generator"
    if f is None:
        run.undecided_ob(oname, "frames", "ast-shape", "Result.samples not found")
        return
    src = ast.unparse(f.node)
    ok = "random.Random(self._config.seed_sequence)" in src and not f.rng and ".shuffle(_samples)" in src
    if ok:
        run.discharged(oname, "frames", "ast-shape", 0.0)
    else:
        run.failed(oname, "frames", "ast-shape", what="Result.samples does not shuffle with a local random.Random(seed)",
                   counterexample={"rng_uses": f.rng}, replay={"kind": "none"}, reproduced=False)


# ---------------------------------------------------------------------------------- bounded
def bounded(run):
    import piquasso as pq
    import numpy as np

    evaluations, distinct, fails = 0, set(), []

    def programs():
        U = np.array([[0.6, 0.8, 0], [-0.8, 0.6, 0], [0, 0, 1]], dtype=complex)
        yield "Sampling", pq.SamplingSimulator, 3, [pq.StateVector([1, 1, 0]), pq.Interferometer(U),
                                                     pq.Beamsplitter(theta=0.9).on_modes(1, 2), pq.ParticleNumberMeasurement()], {}
        yield "Gaussian-PNM", pq.GaussianSimulator, 2, [pq.Vacuum(), pq.Squeezing(r=0.4).on_modes(0), pq.Beamsplitter(theta=0.6).on_modes(0, 1),
                                                        pq.ParticleNumberMeasurement()], {"measurement_cutoff": 4}
        yield "Gaussian-homodyne", pq.GaussianSimulator, 2, [pq.Vacuum(), pq.Squeezing(r=0.4).on_modes(0), pq.HomodyneMeasurement().on_modes(0)], {}
        yield "Gaussian-threshold", pq.GaussianSimulator, 2, [pq.Vacuum(), pq.Squeezing(r=0.6).on_modes(0), pq.Beamsplitter(theta=0.6).on_modes(0, 1),
                                                              pq.ThresholdMeasurement()], {}

    seeds = (1, 2) if run.tier == "quick" else (1, 2, 3, 5, 8)
    for name, cls, d, ins, extra in programs():
        for seed in seeds:
            for use_dask in (False, True):
                try:
                    def once(interleave):
                        sim = cls(d=d, config=pq.Config(seed_sequence=seed, use_dask=use_dask, **extra))
                        if interleave:
                            pq.Config()
                            pq.Config(seed_sequence=99)
                        return sim.execute_instructions(list(ins), shots=6).samples

                    a, b, c = once(False), once(False), once(True)
                except Exception as e:
                    fails.append((name, seed, use_dask, f"raised {type(e).__name__}: {e}"[:160]))
                    continue
                evaluations += 3
                distinct.add((name, seed, use_dask))
                same = [tuple(map(float, s)) for s in a] == [tuple(map(float, s)) for s in b] == [tuple(map(float, s)) for s in c]
                if not same:
                    fails.append((name, seed, use_dask, "samples differ between identically seeded fresh simulators"))
    if fails:
        run.failed("C11/bounded/same-seed-same-samples", "rtc", "enumeration",
                   what=f"{len(fails)} case(s) not reproducible; first: {fails[0]}", counterexample={"cases": fails[:10]},
                   replay={"kind": "bounded", "module": "contracts.C11"}, reproduced=True)
    run.bounded_result("C11/bounded/same-seed-same-samples(+interleaved Config creation, dask on/off)",
                       domain="Sampling / Gaussian (PNM, homodyne, threshold) programs; simulators that draw only from config.rng or per-shot seeds",
                       bound=f"seeds {seeds}, shots 6, dask on/off, two fresh simulators + one with interleaved Config creation",
                       evaluations=evaluations, distinct=len(distinct), failures=len(fails),
                       note="Fock simulators draw from the process-global `random` (known finding, see C11/reads/*) and are exercised by the replay of that finding")


def check(run):
    A = Analysis(REPO)
    roots = r1_global_rng(run, A)
    run.notes.append(f"{len(roots)} sampling roots (every simulation step + Result.samples + constructors)")
    r2_relational(run)
    r3_callbacks(run)
    r4_config_and_result(run, A)
    try:
        from contracts import C11_native

        C11_native.check(run)
    except ImportError:
        run.notes.append("C11/native (cppvc: job tiling of the permanent kernels for every thread count): not built yet")
    bounded(run)
    run.trust("vf/frames.py call graph (name-based method resolution; dynamic dispatch through the instruction map is covered by taking every step function as a root)")
    run.assume("dask.compute(*xs) returns results positionally")
    run.assume("numpy Generator methods are functions of the generator state only")
    run.assume("'different seeds give different samples' is probabilistic and not claimed")
    run.assume("bitwise equality of float reductions across thread counts is not claimed (float addition is not associative); the claim is equality of the set of addends")


def replay(path):
    with open(path) as f:
        rep = json.load(f)
    kind = (rep.get("replay") or {}).get("kind")
    if kind == "interleaved-config":
        out = replay_interleaved_config()
    elif kind == "dask-vs-sequential":
        out = replay_dask(lossy=(rep.get("replay") or {}).get("lossy", False))
    else:
        print(rep.get("what"))
        return 1
    print(json.dumps(out, indent=1))
    return 1 if out.get("reproduced") else 0
