"""Integer-function contracts (pyvc) shared by C06, C14 (index permutations) and C16.

Spec vocabulary (DESIGN section 3):
  C(n, k)        binomial coefficient on Z x Z (0 outside 0 <= k <= n)      [uninterpreted + Lean lemmas]
  S(v, d, k)     sum_{j<=k} v[d-1-j]                                          [uninterpreted, unfold lemma]
  RK(v, d, k)    sum_{j<k} C(S(v,d,j)+j, j+1)   (combinatorial number system) [uninterpreted, unfold lemma]
"""
from __future__ import annotations

from vf import pyvc
from vf.pyvc import SpecEnv

SEQ = ("Seq", "Int")
MAX64 = 9223372036854775807

LEMMAS = {
    # name: params, formula (spec syntax), Lean theorem in lemmas/PiquassoLemmas.lean
    "absorb": dict(params=[("n", "Int"), ("k", "Int")], lean="PiquassoLemmas.absorb",
                   formula="implies(n >= 0 and k >= 0, C(n, k + 1) * (k + 1) == C(n, k) * (n - k))"),
    "C_zero": dict(params=[("n", "Int")], lean="PiquassoLemmas.C_zero",
                   formula="implies(n >= 0, C(n, 0) == 1)"),
    "C_out": dict(params=[("n", "Int"), ("k", "Int")], lean="PiquassoLemmas.C_out",
                  formula="implies(n < 0 or k < 0 or n < k, C(n, k) == 0)"),
    "C_pos": dict(params=[("n", "Int"), ("k", "Int")], lean="PiquassoLemmas.C_pos",
                  formula="implies(0 <= k and k <= n, C(n, k) >= 1)"),
    "symm": dict(params=[("n", "Int"), ("k", "Int")], lean="PiquassoLemmas.symm",
                 formula="implies(0 <= k and k <= n, C(n, k) == C(n, n - k))"),
    "pascal": dict(params=[("n", "Int"), ("k", "Int")], lean="PiquassoLemmas.pascal",
                   formula="implies(n >= 0 and k >= 0, C(n + 1, k + 1) == C(n, k) + C(n, k + 1))"),
    "mono_mul": dict(params=[("n", "Int"), ("j", "Int"), ("k", "Int")], lean="PiquassoLemmas.mono_mul",
                     formula="implies(0 <= j and j <= k and 2 * k <= n, C(n, j) * j <= C(n, k) * k)"),
    "S_unfold": dict(params=[("v", SEQ), ("d", "Int"), ("k", "Int")], lean="definition of S (recursive spec function)",
                     formula="S(v, d, k) == ite(k < 0, 0, S(v, d, k - 1) + v[d - 1 - k])"),
    "RK_unfold": dict(params=[("v", SEQ), ("d", "Int"), ("k", "Int")], lean="definition of RK (recursive spec function)",
                      formula="RK(v, d, k) == ite(k <= 0, 0, RK(v, d, k - 1) + C(S(v, d, k - 1) + (k - 1), k))"),
}

SPEC = SpecEnv(
    funs={
        "C": (["Int", "Int"], "Int"),
        "S": ([SEQ, "Int", "Int"], "Int"),
        "RK": ([SEQ, "Int", "Int"], "Int"),
    },
    lemmas=LEMMAS,
)

INT64_PARAM = "-9223372036854775808 <= {0} and {0} <= 9223372036854775807"

COMB = dict(
    params=[("n", "Int"), ("k", "Int")],
    returns="Int",
    int64=True,
    requires=[
        INT64_PARAM.format("n"), INT64_PARAM.format("k"),
        # the range in which numba's int64 arithmetic is exact: the largest intermediate is
        # C(n, k') * k' with k' = min(k, n - k)
        "implies(0 <= k and k <= n, C(n, min(k, n - k)) * min(k, n - k) <= 9223372036854775807)",
    ],
    ensures=["result == C(old(n), old(k))"],
    loops={
        "0": dict(invariant=[
            "0 <= i", "i <= k", "prod == C(n, i)", "prod >= 1",
        ]),
    },
    ghost={
        "entry": ["use('C_out', n, k)", "use('C_zero', n)"],
        "loop[0].start": ["use('absorb', n, i)", "use('mono_mul', n, i + 1, k)", "use('C_pos', n, i + 1)",
                          "use('C_pos', n, k)"],
        "exit": ["use('symm', n, old(k))"],
    },
)

# callee contract of comb as seen by its callers (contract, not body)
COMB_CALLEE = dict(
    params=[("n", "Int"), ("k", "Int")],
    returns="Int",
    requires=COMB["requires"],
    ensures=["result == C(n, k)"],
)

INT32 = 2147483647

LEMMAS.update({
    "C_ge_n": dict(params=[("n", "Int"), ("k", "Int")], lean="PiquassoLemmas.C_ge_n",
                   formula="implies(1 <= k and k <= n - 1, C(n, k) >= n)"),
    "mul_bound": dict(params=[("a", "Int"), ("b", "Int"), ("m", "Int")], lean="PiquassoLemmas.mul_bound",
                      formula="implies(0 <= a and a <= m and 0 <= b and b <= m, a * b <= m * m)"),
    "hockey_step": dict(params=[("d", "Int"), ("n", "Int")], lean="PiquassoLemmas.hockey_step",
                        formula="implies(d >= 1 and n >= 0, C(d + n - 1, d) + C(d + n - 1, n) == C(d + n, d))"),
})


def index_contract(upto):
    """get_index_in_fock_space (upto = 'd') / get_index_in_fock_subspace (upto = 'd - 1')."""
    d = "len(element)"
    K = f"({d})" if upto == "d" else f"({d} - 1)"
    return dict(
        params=[("element", SEQ)],
        returns="Int",
        int64=True,
        requires=[
            f"forall(lambda j: element[j] >= 0, 0, {d})",
            # the property's own range: every partial sum and every partial index fits 32 bits
            f"forall(lambda j: 0 <= S(element, {d}, j) and S(element, {d}, j) <= {INT32}, 0, {d})",
            f"forall(lambda j: 0 <= RK(element, {d}, j) and RK(element, {d}, j) <= {INT32}, 0, {d} + 1)",
            f"forall(lambda j: 0 <= C(S(element, {d}, j) + j, j + 1) and C(S(element, {d}, j) + j, j + 1) <= {INT32}, 0, {d})",
            f"{d} <= {INT32}",
        ],
        ensures=[f"result == RK(element, {d}, {K})" if upto == "d" else
                 f"result == ite({d} >= 1, RK(element, {d}, {d} - 1), 0)"],
        loops={"0": dict(invariant=[
            "0 <= i", f"i <= {K}" if upto == "d" else f"implies({d} >= 1, i <= {d} - 1)",
            f"sum_ == S(element, {d}, i - 1)", f"accumulator == RK(element, {d}, i)",
        ])},
        ghost={
            "entry": [f"use('S_unfold', element, {d}, 0 - 1)", f"use('RK_unfold', element, {d}, 0)"],
            "loop[0].start": [
                f"use('S_unfold', element, {d}, i)", f"use('RK_unfold', element, {d}, i + 1)",
                f"use('symm', S(element, {d}, i) + i, i + 1)",
                f"use('C_ge_n', S(element, {d}, i) + i, i + 1)",
                f"use('C_out', S(element, {d}, i) + i, i + 1)",
                f"use('mul_bound', C(S(element, {d}, i) + i, i + 1), min(i + 1, S(element, {d}, i) + i - (i + 1)), {INT32})",
            ],
        },
    )


DIM = dict(
    params=[("cutoff", "Int"), ("d", "Int")], returns="Int", int64=True,
    requires=["0 <= cutoff and cutoff <= 2147483647", "0 <= d and d <= 2147483647",
              # exactness range of comb at these arguments
              "implies(0 <= d and d <= d + cutoff - 1, C(d + cutoff - 1, min(d, cutoff - 1)) * min(d, cutoff - 1) <= 9223372036854775807)"],
    ensures=["result == C(d + cutoff - 1, d)"],
)
SSC = dict(
    params=[("d", "Int"), ("n", "Int")], returns="Int", int64=True,
    requires=["0 <= n and n <= 2147483647", "0 <= d and d <= 2147483647",
              "implies(0 <= n and n <= d + n - 1, C(d + n - 1, min(n, d - 1)) * min(n, d - 1) <= 9223372036854775807)"],
    ensures=["result == C(d + n - 1, n)"],
)

XXPP_TO_XPXP = dict(
    params=[("d", "Int")], returns=SEQ, int64=True, array_width=32,
    requires=["0 <= d and d <= 1073741823"],
    ensures=["len(result) == 2 * d",
             "forall(lambda j: result[2 * j] == j and result[2 * j + 1] == d + j, 0, d)"],
    loops={"0": dict(invariant=["0 <= i", "i <= d",
                                "forall(lambda j: indices[2 * j] == j and indices[2 * j + 1] == d + j, 0, i)"])},
)
XPXP_TO_XXPP = dict(
    params=[("d", "Int")], returns=SEQ, int64=True, array_width=32,
    requires=["0 <= d and d <= 1073741823"],
    ensures=["len(result) == 2 * d",
             "forall(lambda j: result[j] == 2 * j and result[d + j] == 2 * j + 1, 0, d)"],
    loops={"0": dict(invariant=["0 <= i", "i <= d",
                                "forall(lambda j: indices[j] == 2 * j and indices[d + j] == 2 * j + 1, 0, i)"])},
)

CALLEES = {"comb": COMB_CALLEE}

# ---------------------------------------------------------------------------------------- vectorised variants
# arr_comb / get_index_in_fock_(sub)space_array are numpy code compiled by numba; vf/lift.py rewrites the real source,
# mechanically, into the function computing ONE generic element (rules R1-R7 there).  The lifted text is verified
# against the same specification as the scalar functions, so `vectorised index = scalar index = rank` for every
# element in the stated range; every array temporary must fit int64 and every stored value its array's dtype.


def _replay_arr_comb(vc, r):
    """replay of a refuted arr_comb obligation on the real (jitted) function: first the solver's model (n, k); when the
    model does not fail natively (e.g. a refuted invariant), every (n, k) with n <= 200 inside the contract's range"""
    import math
    try:
        import numpy as np

        from piquasso._math.combinatorics import arr_comb

        def bad(n, k):
            got = int(arr_comb(np.array([n], dtype=np.int64), k)[0])
            want = math.comb(n, k) if 0 <= k <= n else 0
            return None if got == want else {"n": n, "k": k, "arr_comb": got, "binomial": want}

        m = r.model or {}
        try:
            n, k = int(m.get("n")), int(m.get("k"))
        except (TypeError, ValueError):
            n, k = None, None
        if n is not None and 0 <= k <= 5000 and -2 ** 62 < n < 2 ** 62:
            b = bad(n, k)
            if b:
                return {"replay": {"kind": "arr_comb", "n": n, "k": k}, "reproduced": True, "observed": b}
        for n in range(0, 201):
            ks = [k for k in range(0, n + 1) if math.comb(n, min(k, n - k)) * min(k, n - k) <= MAX64]
            got = {k: bad(n, k) for k in ks}
            hit = next((v for v in got.values() if v), None)
            if hit:
                return {"replay": {"kind": "arr_comb", "n": hit["n"], "k": hit["k"]}, "reproduced": True, "observed": hit}
        return {"replay": {"kind": "smt-model", "n": n, "k": k}, "reproduced": False}
    except Exception as e:       # noqa: BLE001 - the replay must never mask the refuted obligation
        return {"replay": {"kind": "smt-model"}, "reproduced": False, "observed": {"error": str(e)[:200]}}


ARR_COMB = dict(
    params=[("n", "Int"), ("k", "Int")], returns="Int",
    requires=[
        INT64_PARAM.format("n"), "0 <= k and k <= 9223372036854775806", "n >= 0 or k >= 1",
        # the range in which the int64 arithmetic is exact (same as the scalar comb)
        "implies(0 <= k and k <= n, C(n, min(k, n - k)) * min(k, n - k) <= 9223372036854775807)",
    ],
    ensures=["result == C(old(n), old(k))"],
    loops={"0": dict(invariant=[
        "0 <= i", "i <= k",
        "implies(invalid, n == 0 and steps == k and prod == ite(i == 0, 1, 0))",
        "implies(not invalid, 0 <= steps and steps <= k and 2 * steps <= n and prod == C(n, min(i, steps)) and prod >= 1)",
    ])},
    ghost={
        "entry": ["use('C_out', n, k)", "use('C_zero', n)", "use('symm', n, k)"],
        "loop[0].before": ["use('C_zero', n)"],
        "loop[0].start": ["use('absorb', n, i)", "use('mono_mul', n, i + 1, steps)", "use('C_pos', n, i + 1)", "use('C_pos', n, steps)"],
    },
    on_counterexample=_replay_arr_comb,
)
ARR_COMB_CALLEE = dict(params=ARR_COMB["params"], returns="Int", requires=ARR_COMB["requires"], ensures=["result == C(n, k)"])


def _lift_arr_comb(f):
    from vf import lift
    return lift.lift(f, elementwise=["n"])[0]


def _lift_index(f):
    from vf import lift
    return lift.lift(f, last_axis={"basis": "element"}, array_callees=["arr_comb"])[0]


def index_array_contract(upto):
    c = dict(index_contract(upto))
    c["int64"] = False         # the lifted text carries its own machine-width obligations (__i32 / __i64)
    return c


LIFTED = {
    "piquasso/_math/combinatorics.py:arr_comb": (ARR_COMB, {}, _lift_arr_comb),
    "piquasso/_math/indices.py:get_index_in_fock_space_array": (index_array_contract("d"), {"arr_comb": ARR_COMB_CALLEE}, _lift_index),
    "piquasso/_math/indices.py:get_index_in_fock_subspace_array": (index_array_contract("d-1"), {"arr_comb": ARR_COMB_CALLEE}, _lift_index),
}

FUNCTIONS = {
    "piquasso/_math/combinatorics.py:comb": (COMB, {}),
    "piquasso/_math/indices.py:get_index_in_fock_space": (index_contract("d"), CALLEES),
    "piquasso/_math/indices.py:get_index_in_fock_subspace": (index_contract("d-1"), CALLEES),
    "piquasso/_math/fock.py:cutoff_fock_space_dim": (DIM, CALLEES),
    "piquasso/_math/fock.py:symmetric_subspace_cardinality": (SSC, CALLEES),
}
TRANSFORMATIONS = {
    "piquasso/_math/transformations.py:xxpp_to_xpxp_indices": (XXPP_TO_XPXP, {}),
    "piquasso/_math/transformations.py:xpxp_to_xxpp_indices": (XPXP_TO_XXPP, {}),
}


def verify_all(run, table):
    for fid, (contract, callees) in table.items():
        if getattr(run, "only", None) and run.only not in fid:
            continue
        rel, qn = fid.split(":")
        pyvc.verify_function(run, rel, qn, contract, SPEC, callees)


def check(run):
    verify_all(run, FUNCTIONS)
    for fid, (contract, callees, transform) in LIFTED.items():
        if getattr(run, "only", None) and run.only not in fid:
            continue
        rel, qn = fid.split(":")
        pyvc.verify_function(run, rel, qn, contract, SPEC, callees, transform=transform)


def check_comb(run):
    pyvc.verify_function(run, "piquasso/_math/combinatorics.py", "comb", COMB, SPEC)


def check_transformations(run):
    verify_all(run, TRANSFORMATIONS)
    inverse_permutation_lemma(run)


def inverse_permutation_lemma(run):
    """From the two post-conditions: A = xxpp_to_xpxp(d), B = xpxp_to_xxpp(d) are mutually inverse
    permutations of range(2d), for every d (hand-instantiated quantifiers, linear arithmetic)."""
    from vf import smt

    base = """
(declare-fun A () (Array Int Int))
(declare-fun B () (Array Int Int))
(declare-fun d () Int)
(declare-fun i () Int)
(assert (>= d 0))
(assert (forall ((j Int)) (! (=> (and (<= 0 j) (< j d)) (and (= (select A (* 2 j)) j) (= (select A (+ (* 2 j) 1)) (+ d j)))) :pattern ((select A (* 2 j))))))
(assert (forall ((j Int)) (! (=> (and (<= 0 j) (< j d)) (and (= (select B j) (* 2 j)) (= (select B (+ d j)) (+ (* 2 j) 1)))) :pattern ((select B j)))))
(assert (and (<= 0 i) (< i (* 2 d))))
; explicit instances
(assert (=> (and (<= 0 i) (< i d)) (and (= (select A (* 2 i)) i) (= (select A (+ (* 2 i) 1)) (+ d i)) (= (select B i) (* 2 i)) (= (select B (+ d i)) (+ (* 2 i) 1)))))
(assert (=> (and (<= 0 (- i d)) (< (- i d) d)) (and (= (select B (- i d)) (* 2 (- i d))) (= (select B (+ d (- i d))) (+ (* 2 (- i d)) 1)) (= (select A (* 2 (- i d))) (- i d)) (= (select A (+ (* 2 (- i d)) 1)) (+ d (- i d))))))
(assert (=> (and (<= 0 (div i 2)) (< (div i 2) d)) (and (= (select A (* 2 (div i 2))) (div i 2)) (= (select A (+ (* 2 (div i 2)) 1)) (+ d (div i 2))) (= (select B (div i 2)) (* 2 (div i 2))) (= (select B (+ d (div i 2))) (+ (* 2 (div i 2)) 1)))))
"""
    goals = {
        "A(B(i)) = i": "(= (select A (select B i)) i)",
        "B(A(i)) = i": "(= (select B (select A i)) i)",
        "0 <= A(i) < 2d": "(and (<= 0 (select A i)) (< (select A i) (* 2 d)))",
        "0 <= B(i) < 2d": "(and (<= 0 (select B i)) (< (select B i) (* 2 d)))",
    }
    for gname, g in goals.items():
        name = f"piquasso/_math/transformations.py:lemma/mutually-inverse-permutations/{gname}"
        r = smt.solve(base + f"(assert (not {g}))")
        if r.verdict == "unsat":
            run.discharged(name, "pyvc", r.solver, r.seconds, sample={"goal": g})
        elif r.verdict == "sat":
            run.failed(name, "pyvc", r.solver, what=f"the index arrays are not mutually inverse: {gname}",
                       counterexample=r.model, replay={"kind": "smt-model"}, reproduced=False, solver_output=r.output[:2000])
        else:
            run.undecided_ob(name, "pyvc", r.solver, f"solver answered {r.verdict}")
