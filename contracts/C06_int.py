def check_transformations(run):
    run.notes.append("pyvc obligations for transformations.py: not built yet")
