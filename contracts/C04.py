"""C04 - matrix-function kernels equal their combinatorial definitions (DESIGN 5/C04, 11.3).

Proved (cppvc = clang AST -> integer skeleton -> pyvc, + Lean lemmas, + ghost lemmas):
  * binomialCoeff<int> / <int64_t> (src/utils.hpp): result = C(n, k), no signed overflow, no division by 0;
  * Vector<int>::sum (src/matrix.hpp): the sum, no overflow;
  * n_aryGrayCodeCounter (src/n_aryGrayCodeCounter.hpp): every method the kernels use, against the class invariant
    (contracts/C04_gray.py) - the kernel proofs use contracts derived mechanically from these, nothing assumed;
  * permanent_cpp<double> (src/permanent.cpp) and permanent_laplace_cpp<double> (src/permanent_laplace.cpp), each split
    mechanically into the row-splitting prefix and the kernel proper: every index in bounds (also those inside dropped
    floating statements), no division by zero, no signed overflow and no unsigned wrap-around, binomial weight =
    prod_i C(row_i, gray_i) at every addend (incremental update exact), job ranges tile [0, idx_max) for every value of
    hardware_concurrency(), row index = job index - under the stated exactness pre-condition on the multiplicities;
  * domain coverage: the exactness pre-condition holds for EVERY multiplicity pattern in the property's range (exhaustive
    over the finite range), otherwise the failing pattern is replayed on the kernels compiled from /repo/src;
  * pfaffian_cpp<double>: memory safety for every input (contracts/C04_safety.py; floating branches nondeterministic).
Bounded (rtc): floating accuracy of every kernel against its defining sum, incl. structured / degenerate inputs; the Gray
counter's contract on the real class (cross-check of the proof engine and replay of refuted class obligations).
"""
from __future__ import annotations

import itertools
import json
import os
import math

import numpy as np

from contracts import C04_ghost, C04_gray, C04_native as N, C04_safety
from vf import lean, native, pyvc


# ---------------------------------------------------------------------------------- coverage (B)
def property_range(tier):
    """multiplicity vectors of the property's quantifier: total up to 40 on few (<= 3) modes, up to 8 on
    up to 8 modes"""
    out = set()
    tmax = 40
    for a in range(0, tmax + 1):
        out.add((a,))
        for b in range(a, tmax + 1 - a):
            out.add((a, b))
            if tier != "quick" or (a + b) % 3 == 0:
                for c in range(b, tmax + 1 - a - b):
                    out.add((a, b, c))
    for d in range(4, 9):
        for comb in itertools.combinations_with_replacement(range(0, 9), d):
            if 1 <= sum(comb) <= 8:
                out.add(comb)
    return sorted(v for v in out if sum(v) >= 1)


def split_rows(rows):
    """the post-condition proved for the row-splitting prefix, evaluated concretely"""
    nz = [(r, i) for i, r in enumerate(rows) if r > 0]
    m = min(nz)[1]            # first smallest non-zero multiplicity
    new = [1] + list(rows)
    new[1 + m] -= 1
    return new


def precondition_holds(rows, bc_max, binom_max):
    r = split_rows(rows)
    rmax = max(r)
    lim = 1
    pmax = 1
    for x in r[1:]:
        lim *= x + 1
        pmax *= math.comb(x, x // 2)
        if math.comb(x, x // 2) > binom_max:
            return False, f"C({x},{x // 2}) exceeds the range of binomialCoeff's result type"
        if lim > 2147483647:
            return False, "number of Gray codes exceeds the int range of the counter"
        if pmax * (rmax + 1) > bc_max:
            return False, f"binomial weight product {pmax} x (max multiplicity + 1) exceeds the accumulator range {bc_max}"
    if len(r) * (rmax + 1) > 2147483647:
        return False, "sum of digits exceeds int"
    return True, ""


def coverage_obligation(run, bc_max, binom_max, bc_type):
    vecs = property_range(run.tier)
    bad = []
    for v in vecs:
        for rows in set(itertools.permutations(v)) if len(v) <= 3 else [v]:
            ok, why = precondition_holds(rows, bc_max, binom_max)
            if not ok:
                bad.append((rows, why))
    oname = "C04/coverage/exactness-precondition-holds-on-the-property-range"
    if not bad:
        run.discharged(oname, "cppvc", "exhaustive-arithmetic", 0.0, sample={"multiplicity_vectors": len(vecs), "accumulator": bc_type})
        return
    bad.sort(key=lambda b: (sum(b[0]), b[0]))
    rows, why = bad[0]
    rep = replay_multiplicity(rows)
    run.failed(oname, "cppvc", "exhaustive-arithmetic",
               what=f"{len(bad)} multiplicity pattern(s) of the property's range are outside the range in which the kernel's "
                    f"`{bc_type}` arithmetic is exact; smallest: rows = cols = {list(rows)} ({why})",
               counterexample={"rows": list(rows), "why": why, "count": len(bad)},
               replay={"kind": "native-permanent", "rows": list(rows)}, reproduced=rep.get("reproduced", False), observed=rep)


def replay_multiplicity(rows, tol=1e-8):
    """A = c * ones: the permanent with multiplicities is (sum rows)! * c^(sum rows) exactly"""
    out = {"tried": []}
    try:
        lib = native.build()
    except Exception as e:
        return {"error": str(e)[:300], "reproduced": False}
    cands = [tuple(rows)] + [tuple(x + k for x in rows) for k in (1, 2, 4)]
    for r in cands:
        n = len(r)
        tot = sum(r)
        c = 0.5
        A = np.full((n, n), c, dtype=complex)
        want = math.factorial(tot) * c ** tot
        for laplace in (False,):
            got = native.permanent(lib, A, list(r), list(r))
            rel = abs(got - want) / abs(want)
            out["tried"].append({"rows": list(r), "relative_error": rel})
            if rel > tol:
                out["reproduced"] = True
                out["witness"] = {"A": f"{c} * ones({n},{n})", "rows=cols": list(r), "kernel": float(got.real), "exact": want,
                                  "relative_error": rel}
                return out
    out["reproduced"] = False
    return out


# ---------------------------------------------------------------------------------- Gray counter
def gray_counter_bounded(run, report_only=False):
    """the contract of n_aryGrayCodeCounter (proved in contracts/C04_gray.py) evaluated on the real class, compiled
    from /repo/src, for every limit vector with a small product, every start offset: cross-check of the proof
    engine and replay of refuted class obligations"""
    import ctypes

    lib = native.build()
    pmax = 64 if run.tier == "quick" else 1024
    fails, ev, distinct = [], 0, 0
    for n in (1, 2, 3, 4):
        for limits in itertools.product(range(1, 8), repeat=n):
            total = int(np.prod(limits))
            if total > pmax or (n > 1 and limits[-1] == 1 and run.tier == "quick"):
                continue
            distinct += 1
            lim = np.array(limits, dtype=np.int32)
            for t0 in ({0, total // 2, total - 1} if run.tier == "quick" else range(total)):
                steps = total - t0 + 1
                out = np.zeros((n + (4 + n) * steps) + 8, dtype=np.int32)
                lib.gray_run(lim.ctypes.data_as(ctypes.c_void_p), ctypes.c_int(n), ctypes.c_long(t0), ctypes.c_long(steps),
                             out.ctypes.data_as(ctypes.c_void_p))
                ev += 1
                code = out[:n].copy()
                seen_codes = {tuple(code)}
                if not all(0 <= code[i] < limits[i] for i in range(n)):
                    fails.append((limits, t0, "ctor: digit out of range", code.tolist()))
                k = n
                offset = t0
                for s in range(steps):
                    ret, ci, pv, v = out[k:k + 4]
                    new = out[k + 4:k + 4 + n].copy()
                    k += 4 + n
                    if offset >= total - 1:
                        if ret != 1 or not np.array_equal(new, code):
                            fails.append((limits, t0, "next at the end must return 1 and change nothing", s))
                        continue
                    if ret != 0:
                        fails.append((limits, t0, "next returned 1 before the end", s))
                        break
                    diff = [i for i in range(n) if new[i] != code[i]]
                    if diff != [ci] or pv != code[ci] or v != new[ci] or abs(int(v) - int(pv)) != 1 or not (0 <= v < limits[ci]):
                        fails.append((limits, t0, "next: not exactly one digit changed by +-1 / wrong report", s, code.tolist(), new.tolist()))
                        break
                    code = new
                    offset += 1
                    if tuple(code) in seen_codes:
                        fails.append((limits, t0, "code repeated", s))
                        break
                    seen_codes.add(tuple(code))
                if t0 == 0 and len(seen_codes) != total and not fails:
                    fails.append((limits, t0, f"visited {len(seen_codes)} codes of {total}", None))
    if report_only:
        return fails
    if fails:
        run.failed("C04/bounded/n_aryGrayCodeCounter-contract", "rtc", "exhaustive-enumeration",
                   what=f"the contract of n_aryGrayCodeCounter fails on the real class: {fails[0]}",
                   counterexample={"cases": [repr(f) for f in fails[:5]]}, replay={"kind": "gray"}, reproduced=True)
    run.bounded_result("C04/bounded/n_aryGrayCodeCounter-contract(ctor,next)", domain=f"all limit vectors with 1..4 digits, digits < 8, "
                       f"product <= {pmax}; start offsets {'0, mid, last' if run.tier == 'quick' else 'all'}; runs to the end",
                       bound="exhaustive in the box", evaluations=ev, distinct=distinct, failures=len(fails))


# ---------------------------------------------------------------------------------- accuracy
def expand(A, rows, cols):
    ri = [i for i, r in enumerate(rows) for _ in range(r)]
    ci = [j for j, c in enumerate(cols) for _ in range(c)]
    return A[np.ix_(ri, ci)]


def perm_ref(M):
    n = M.shape[0]
    if n == 0:
        return 1.0
    return sum(np.prod([M[i, p[i]] for i in range(n)]) for p in itertools.permutations(range(n)))


def haf_ref(M, loop=False):
    n = M.shape[0]
    if n == 0:
        return 1.0

    def rec(idx):
        if not idx:
            return 1.0
        i = idx[0]
        tot = 0.0
        if loop:
            tot += M[i, i] * rec(idx[1:])
        for k in range(1, len(idx)):
            j = idx[k]
            tot += M[i, j] * rec(idx[1:k] + idx[k + 1:])
        return tot

    if n % 2 and not loop:
        return 0.0
    return rec(list(range(n)))


def tor_ref(A, gamma=None):
    """torontonian / loop torontonian in xpxp ordering: sum over mode subsets"""
    n = A.shape[0] // 2
    tot = 0.0
    for k in range(n + 1):
        for Z in itertools.combinations(range(n), k):
            idx = [x for m in Z for x in (2 * m, 2 * m + 1)]
            sub = A[np.ix_(idx, idx)]
            I = np.identity(len(idx))
            det = np.linalg.det(I - sub) if idx else 1.0
            term = 1.0 / np.sqrt(det)
            if gamma is not None and idx:
                g = gamma[idx]
                term *= np.exp(0.5 * g @ np.linalg.inv(I - sub) @ g)
            tot += (-1) ** (n - k) * term
    return tot


def pf_ref(A):
    n = A.shape[0]
    if n == 0:
        return 1.0
    if n % 2:
        return 0.0

    def rec(idx):
        if not idx:
            return 1.0
        i = idx[0]
        tot = 0.0
        for k in range(1, len(idx)):
            j = idx[k]
            tot += (-1) ** (k - 1) * A[i, j] * rec(idx[1:k] + idx[k + 1:])
        return tot

    return rec(list(range(n)))


def accuracy_bounded(run):
    rng = np.random.default_rng(run.seed + 4)
    fails, ev, distinct = [], 0, set()
    try:
        perm_mod = native.build_pybind("permanent")
        tor_mod = native.build_pybind("torontonian")
        pf_mod = native.build_pybind("pfaffian")
    except Exception as e:
        run.broken_ob("C04/bounded/build", f"cannot rebuild the pybind modules from /repo: {e}"[:300])
        return
    from piquasso._math.hafnian import hafnian_with_reduction, loop_hafnian_with_reduction

    nmax = 3 if run.tier == "quick" else 4
    patterns = [p for n in range(1, nmax + 1) for p in itertools.product(range(0, 4), repeat=n) if 1 <= sum(p) <= (5 if run.tier == "quick" else 7)]
    if run.tier == "quick":
        patterns = patterns[::3]
    for rows in patterns:
        n = len(rows)
        cols_opts = [c for c in itertools.product(range(0, 4), repeat=n) if sum(c) == sum(rows)]
        for cols in cols_opts[:: max(1, len(cols_opts) // 3)]:
            A = rng.normal(size=(n, n)) + 1j * rng.normal(size=(n, n))
            want = perm_ref(expand(A, rows, cols))
            for dtype, tol in ((np.complex128, 1e-10), (np.complex64, 2e-4)):
                for order in ("C", "F"):
                    Ad = np.array(A, dtype=dtype, order=order)
                    got = perm_mod.permanent(Ad, np.array(rows, dtype=np.int32), np.array(cols, dtype=np.int32))
                    ev += 1
                    if abs(got - want) > tol * max(1.0, abs(want)):
                        fails.append(("permanent", rows, cols, dtype.__name__, order, complex(got), complex(want)))
            distinct.add(("perm", rows, cols))
            m_idx = min((r, i) for i, r in enumerate(rows) if r > 0)[1]
            gotv = perm_mod.permanent_laplace(np.array(A, dtype=np.complex128), np.array(rows, dtype=np.int32), np.array(cols, dtype=np.int32))
            for l in range(n):
                if cols[l] == 0:
                    continue
                r2, c2 = list(rows), list(cols)
                r2[m_idx] -= 1
                c2[l] -= 1
                w = perm_ref(expand(A, r2, c2))
                ev += 1
                if abs(gotv[l] - w) > 1e-10 * max(1.0, abs(w)):
                    fails.append(("permanent_laplace", rows, cols, l, complex(gotv[l]), complex(w)))
    # ONE job (hardware_concurrency forced to 1 through the ctypes shim): every Gray step uses the incremental weight update,
    # which with 4 x cores jobs is hardly exercised on small patterns
    try:
        lib = native.build()
        lib.force_threads(1)
        for rows, cols in (((2, 1), (1, 2)), ((3, 2), (2, 3)), ((2, 2, 1), (1, 2, 2)), ((3, 0, 2), (2, 2, 1)), ((4, 3), (3, 4)), ((2, 2, 2), (3, 1, 2))):
            n = len(rows)
            A = rng.normal(size=(n, n)) + 1j * rng.normal(size=(n, n))
            want = perm_ref(expand(A, rows, cols))
            got = native.permanent(lib, A, list(rows), list(cols))
            ev += 1
            distinct.add(("one-job", rows, cols))
            if abs(got - want) > 1e-9 * max(1.0, abs(want)):
                fails.append(("permanent", "one job", rows, cols, complex(got), complex(want)))
            gv = native.permanent(lib, A, list(rows), list(cols), laplace=True)
            m_idx = min((r_, i) for i, r_ in enumerate(rows) if r_ > 0)[1]
            for l in range(n):
                if cols[l] == 0:
                    continue
                r2, c2 = list(rows), list(cols)
                r2[m_idx] -= 1
                c2[l] -= 1
                w = perm_ref(expand(A, r2, c2))
                ev += 1
                if abs(gv[l] - w) > 1e-9 * max(1.0, abs(w)):
                    fails.append(("permanent_laplace", "one job", rows, cols, l, complex(gv[l]), complex(w)))
        lib.force_threads(-1)
    except Exception as e:      # noqa: BLE001
        run.broken_ob("C04/bounded/one-job", f"forced single-job run failed: {e}"[:300])
    # high multiplicity on two modes (closed form): c * ones
    for r in ((12, 12), (20, 20), (5, 35), (1, 39), (40,), (13, 13, 14)):
        n = len(r)
        A = np.full((n, n), 0.5 + 0.0j)
        want = math.factorial(sum(r)) * 0.5 ** sum(r)
        got = perm_mod.permanent(A, np.array(r, dtype=np.int32), np.array(r, dtype=np.int32))
        ev += 1
        distinct.add(("high", r))
        if abs(got - want) > 1e-7 * want:
            fails.append(("permanent-high-multiplicity", r, complex(got), want))
    # hafnian / loop hafnian with reductions
    for n in range(1, nmax + 1):
        for occ in itertools.product(range(0, 3), repeat=n):
            if sum(occ) == 0 or sum(occ) > 6:
                continue
            B = rng.normal(size=(n, n)) + 1j * rng.normal(size=(n, n))
            B = B + B.T
            idx = [i for i, o in enumerate(occ) for _ in range(o)]
            M = B[np.ix_(idx, idx)]
            ev += 2
            distinct.add(("haf", occ))
            got = hafnian_with_reduction(B, np.array(occ))
            want = haf_ref(M)
            if abs(got - want) > 1e-9 * max(1.0, abs(want)):
                fails.append(("hafnian", occ, complex(got), complex(want)))
            diag = rng.normal(size=n) + 1j * rng.normal(size=n)
            M2 = M.copy()
            np.fill_diagonal(M2, diag[idx])
            got = loop_hafnian_with_reduction(B, diag, np.array(occ))
            want = haf_ref(M2, loop=True)
            if abs(got - want) > 1e-9 * max(1.0, abs(want)):
                fails.append(("loop_hafnian", occ, complex(got), complex(want)))
    # torontonian / loop torontonian / pfaffian
    for n in range(1, nmax + 1):
        for rep in range(2 if run.tier == "quick" else 6):
            X = rng.normal(size=(2 * n, 2 * n))
            S = X @ X.T
            A = 0.4 * S / np.linalg.norm(S, 2)
            g = 0.3 * rng.normal(size=2 * n)
            ev += 3
            distinct.add(("tor", n, rep))
            got = tor_mod.torontonian(np.ascontiguousarray(A))
            want = tor_ref(A)
            if abs(got - want) > 1e-9 * max(1.0, abs(want)):
                fails.append(("torontonian", n, float(got), float(want)))
            got = tor_mod.loop_torontonian(np.ascontiguousarray(A), np.ascontiguousarray(g))
            want = tor_ref(A, g)
            if abs(got - want) > 1e-9 * max(1.0, abs(want)):
                fails.append(("loop_torontonian", n, float(got), float(want)))
            K = rng.normal(size=(2 * n, 2 * n))
            K = K - K.T
            K0 = K.copy()
            got = pf_mod.pfaffian(K)
            want = pf_ref(K0)
            if abs(got - want) > 1e-9 * max(1.0, abs(want)) or not np.array_equal(K, K0):
                fails.append(("pfaffian", n, float(got), float(want), "input changed" if not np.array_equal(K, K0) else ""))
    # structured / degenerate inputs: exact zeros, decoupled pairs, direct sums in every position (pivoting and the
    # Householder steps of the hafnian's characteristic polynomial take their special-case branches only on such inputs)
    def direct_sum(blocks):
        m = sum(b.shape[0] for b in blocks)
        out = np.zeros((m, m), dtype=complex)
        k = 0
        for b in blocks:
            out[k:k + b.shape[0], k:k + b.shape[0]] = b
            k += b.shape[0]
        return out

    pair = lambda c: np.array([[0, c], [c, 0]], dtype=complex)
    for nblk in ((2, 4) if run.tier == "quick" else (1, 2, 3, 4, 6)):
        Bk = rng.normal(size=(nblk, nblk)) + 1j * rng.normal(size=(nblk, nblk))
        Bk = Bk + Bk.T
        for blocks in ([Bk, pair(0.7)], [pair(0.7), Bk], [pair(0.3), Bk, pair(-0.6j)], [Bk, pair(0.7), pair(0.2)]):
            B = direct_sum(blocks)
            n = B.shape[0]
            perms = [np.arange(n)] + [rng.permutation(n) for _ in range(1 if run.tier == "quick" else 3)]
            for pm in perms:
                Bp = B[np.ix_(pm, pm)]
                for occ in ((1,) * n, tuple(1 + (i % 2) for i in range(n))):
                    if sum(occ) % 2 or sum(occ) > 8:
                        continue
                    idx = [i for i, o in enumerate(occ) for _ in range(o)]
                    M = Bp[np.ix_(idx, idx)]
                    ev += 1
                    distinct.add(("haf-structured", n, tuple(pm), occ))
                    got = hafnian_with_reduction(Bp, np.array(occ))
                    want = haf_ref(M)
                    if abs(got - want) > 1e-9 * max(1.0, abs(want)):
                        fails.append(("hafnian", "structured", [b.shape[0] for b in blocks], list(map(int, pm)), occ, complex(got), complex(want)))
    for n in (2, 3):
        # anti-diagonal skew matrix, sums of 2x2 blocks in permuted order, zero first super-diagonal
        cands = []
        a = rng.normal(size=2 * n)
        K = np.zeros((2 * n, 2 * n))
        for i in range(n):
            K[i, 2 * n - 1 - i] = a[i]
            K[2 * n - 1 - i, i] = -a[i]
        cands.append(("anti-diagonal", K))
        K = np.zeros((2 * n, 2 * n))
        for i in range(n):
            K[2 * i, 2 * i + 1], K[2 * i + 1, 2 * i] = a[i], -a[i]
        for _ in range(2 if run.tier == "quick" else 6):
            pm = rng.permutation(2 * n)
            cands.append(("permuted 2x2 blocks", K[np.ix_(pm, pm)]))
        Kd = rng.normal(size=(2 * n, 2 * n))
        Kd = Kd - Kd.T
        for i in range(2 * n - 1):
            Kd[i, i + 1] = Kd[i + 1, i] = 0.0
        cands.append(("zero super-diagonal", Kd))
        Kl = rng.normal(size=(2 * n, 2 * n))
        Kl = Kl - Kl.T
        Kl[0, 1:-1] = 0.0
        Kl[1:-1, 0] = 0.0
        cands.append(("first row couples only to the last", Kl))
        for label, K in cands:
            K0 = K.copy()
            got = pf_mod.pfaffian(np.ascontiguousarray(K))
            want = pf_ref(K0)
            ev += 1
            distinct.add(("pf-structured", n, label, len(distinct)))
            if abs(got - want) > 1e-9 * max(1.0, abs(want)):
                fails.append(("pfaffian", "structured: " + label, n, float(got), float(want)))
    by = {}
    for f in fails:
        by.setdefault(f[0], []).append(f)
    for k, fs in by.items():
        run.failed(f"C04/bounded/accuracy/{k}", "rtc", "run-time-contract", what=f"{k}: {len(fs)} input(s) differ from the defining sum; first: {fs[0]}",
                   counterexample={"cases": [repr(f) for f in fs[:5]]}, replay={"kind": "accuracy", "seed": run.seed}, reproduced=True)
    run.bounded_result("C04/bounded/kernel-value=defining-sum", domain="permanent / permanent_laplace (multiplicity patterns, float32/float64, "
                       "C/F order, high multiplicities on 1-3 modes), hafnian / loop hafnian with reductions, torontonian / loop "
                       "torontonian, Pfaffian; extension modules REBUILT from /repo", bound=f"dimension <= {nmax}, totals <= 7 (40 for c*ones)",
                       evaluations=ev, distinct=len(distinct), failures=len(fails))


def check(run):
    only = getattr(run, "only", None)      # --only gray | safety | laplace | permanent | bounded : a part of the check (debugging / self-test)
    want = lambda part: only is None or only == part
    C04_gray.ON_FAILED[0] = lambda vc, r: _on_failed_gray(run, vc, r)
    if want("permanent"):
        N.check_binomial(run)
        N.check_kernel_prefix(run)
    out = N.check_kernel_suffix(run) if want("permanent") else None
    bc_max, bc_type = None, None
    if out is not None:
        res, bc_max = out
        N.report(run, res, on_failed=_on_failed_vc, on_unknown=_on_unknown_vc)
        bc_type = "int" if bc_max == 2147483647 else "int64_t"
    if want("laplace"):
        N.check_vector_sum(run)
        lap = N.check_laplace(run)
        if lap is not None:
            N.report(run, lap[0], on_failed=_on_failed_vc, on_unknown=_on_unknown_vc)
    if want("safety"):
        C04_safety.check(run)
    if only is None:
        float_instantiations(run)
    if want("gray"):
        C04_ghost.check(run)
        C04_gray.check(run)
    if only is None:
        lean.check_lemmas(run, N.SPEC)
    if bc_max is not None:
        binom_max = bc_max     # the factors are computed by the instantiation matching the accumulator (checked by the callee contract)
        coverage_obligation(run, bc_max, binom_max, bc_type)
    if only not in (None, "bounded"):
        return
    gray_counter_bounded_in_child(run)
    accuracy_bounded(run)
    run.trust("vf/cppvc.py clang-AST -> Python-AST translator of the integer skeleton; vf/pyvc.py; z3/cvc5; clang 14")
    run.trust("the Glynn/BBFG formula with binomial weights equals the permanent with repetitions (Eq. 8 of arXiv:2309.07027) and the "
              "Laplace variant (Lemma 1 of arXiv:2005.04214): mathematics, not proved here")
    run.assume("n_aryGrayCodeCounter: the two constructors not used by the kernels (default, 2-argument) and the destructor are not "
               "verified; `new int[n]` is modelled as a fresh array of n unspecified ints (allocation failure not modelled); the "
               "class's fields are public: a direct field access in a kernel is translated to the same variable the method "
               "contracts speak about, so it is subject to the class invariant carried by the kernel's loop invariant")
    run.assume("floating statements are dropped from the skeleton (their index expressions are kept as bounds obligations); no branch or "
               "loop condition depends on a floating value (the translator refuses otherwise)")
    run.assume("unsigned arithmetic is verified under the stricter obligation that it never wraps")
    run.assume("the float instantiations of the kernels are covered through the equality of their integer skeletons with the verified "
               "double instantiations (obligation same-integer-skeleton-as-<double>); pfaffian_cpp<double> is verified for memory safety only (contracts/C04_safety.py); torontonian / Pfaffian / hafnian kernels are covered only by the bounded accuracy check; 'no undefined behaviour' "
               "of the floating kernels is not covered (sanitizers are a different family)")
    run.assume("OpenMP: the parallel loop body is verified for an arbitrary job index; its integer state is loop-local")


def gray_counter_bounded_in_child(run):
    """the bounded class check, in a child process (a counter broken by a change of the tree may corrupt memory)"""
    import subprocess
    import sys

    code = ("import sys, json; sys.path.insert(0, %r)\n"
            "from contracts import C04\n"
            "class R:\n"
            "    tier = %r\n"
            "    out = {}\n"
            "    def failed(self, name, *a, **k): self.out['failed'] = {'name': name, 'what': k.get('what'), 'counterexample': k.get('counterexample')}\n"
            "    def bounded_result(self, name, **k): self.out['bounded'] = dict(name=name, **k)\n"
            "r = R(); C04.gray_counter_bounded(r)\n"
            "print('RESULT=' + json.dumps(r.out, default=str))\n" % (os.path.dirname(os.path.dirname(os.path.abspath(__file__))), run.tier))
    p = subprocess.run([sys.executable, "-c", code], capture_output=True, text=True, timeout=3600, env=dict(os.environ))
    line = next((l for l in p.stdout.splitlines() if l.startswith("RESULT=")), None)
    name = "C04/bounded/n_aryGrayCodeCounter-contract"
    if line is None:
        if p.returncode < 0:
            run.failed(name, "rtc", "exhaustive-enumeration", what=f"the real class crashed the (child) process with signal {-p.returncode} while "
                       "being exercised: " + (p.stderr.strip().splitlines() or ["?"])[-1][:200], counterexample={"signal": -p.returncode},
                       replay={"kind": "gray"}, reproduced=True)
        else:
            run.broken_ob(name, f"bounded class check did not run: {(p.stderr or p.stdout)[-300:]}")
        return
    d = json.loads(line[7:])
    if "failed" in d:
        run.failed(d["failed"]["name"], "rtc", "exhaustive-enumeration", what=d["failed"]["what"], counterexample=d["failed"]["counterexample"],
                   replay={"kind": "gray"}, reproduced=True)
    if "bounded" in d:
        b = d["bounded"]
        run.bounded_result(b.pop("name"), **b)


def float_instantiations(run):
    """the float instantiations of the kernels have, character for character, the same integer skeleton as the double ones
    that are verified: the same verification conditions, hence the same proofs (checked on every run; a difference is reported
    as undecided - the float instantiation would then need its own proof)"""
    import ast as _ast

    from vf import cppvc

    cases = [("src/permanent.cpp", "permanent_cpp", "std::complex<double> (", "std::complex<float> (", N.KERNEL_TRANSLATION),
             ("src/permanent_laplace.cpp", "permanent_laplace_cpp", "Vector<std::complex<double>> (", "Vector<std::complex<float>> (", N.KERNEL_TRANSLATION),
             ("src/pfaffian.cpp", "pfaffian_cpp", "double (", "float (", {"float_branches_nondet": True})]
    for src, name, td, tf, tr in cases:
        oname = f"{src}:{name}<float>/same-integer-skeleton-as-<double>"
        try:
            docs = cppvc.clang_ast(src, name)
            a, _ = cppvc.translate(cppvc.find_function(docs, name, td), tr)
            b, _ = cppvc.translate(cppvc.find_function(docs, name, tf), tr)
        except (pyvc.Unsupported, StopIteration) as e:
            run.undecided_ob(oname, "cppvc", "clang-ast", f"{type(e).__name__}: {e}")
            continue
        if _ast.unparse(a) == _ast.unparse(b):
            run.discharged(oname, "cppvc", "skeleton-equality", 0.0, function=f"{src}:{name}<float>",
                           sample={"skeleton_characters": len(_ast.unparse(a))})
        else:
            run.undecided_ob(oname, "cppvc", "skeleton-equality", "the float instantiation's integer skeleton differs from the verified "
                             "double one: it needs its own proof")


def _gray_replay_child():
    """exercise the real class in a CHILD process: a broken counter corrupts memory and must not take the checker down"""
    import subprocess
    import sys

    code = ("import sys, json; sys.path.insert(0, %r)\n"
            "from contracts import C04\n"
            "class R: tier = 'thorough'\n"
            "f = C04.gray_counter_bounded(R(), report_only=True)\n"
            "print('REPLAY=' + json.dumps({'cases': [repr(x) for x in f[:5]], 'n': len(f)}))\n" % os.path.dirname(os.path.dirname(os.path.abspath(__file__))))
    try:
        p = subprocess.run([sys.executable, "-c", code], capture_output=True, text=True, timeout=1800, env=dict(os.environ))
    except Exception as e:      # noqa: BLE001
        return {"reproduced": False, "error": str(e)[:200]}
    line = next((l for l in p.stdout.splitlines() if l.startswith("REPLAY=")), None)
    if line:
        d = json.loads(line[7:])
        return {"reproduced": d["n"] > 0, "cases": d["cases"]}
    if p.returncode < 0:
        return {"reproduced": True, "cases": [f"the class compiled from the tree crashed the replay process (signal {-p.returncode}): "
                                              + (p.stderr.strip().splitlines() or ["?"])[-1][:160]]}
    return {"reproduced": False, "error": (p.stderr or p.stdout)[-300:]}


def _on_failed_gray(run, vc, r):
    """a refuted obligation of a Gray-counter method: look for a concrete failing (limits, start offset) on the real class"""
    rep = _gray_replay_child()
    return {"replay": {"kind": "gray"}, "reproduced": rep.get("reproduced", False), "observed": rep}


_UNKNOWN_CACHE = {}


def _on_unknown_vc(vc, r):
    """an undecided kernel obligation: compare both permanent kernels, compiled from the tree, with the defining sum on a few
    multiplicity patterns (computed once per run)"""
    if "done" not in _UNKNOWN_CACHE:
        bad = []
        try:
            mod = native.build_pybind("permanent")
            rng = np.random.default_rng(3)
            for rows, cols in (((2, 1), (1, 2)), ((3, 2), (2, 3)), ((2, 2, 1), (1, 2, 2)), ((3, 0, 2), (2, 2, 1)), ((4, 3), (3, 4))):
                n = len(rows)
                A = rng.normal(size=(n, n)) + 1j * rng.normal(size=(n, n))
                want = perm_ref(expand(A, rows, cols))
                got = mod.permanent(np.array(A, dtype=np.complex128), np.array(rows, dtype=np.int32), np.array(cols, dtype=np.int32))
                if abs(got - want) > 1e-9 * max(1.0, abs(want)):
                    bad.append({"kernel": "permanent", "rows": rows, "cols": cols, "got": complex(got), "want": complex(want)})
                m_idx = min((r_, i) for i, r_ in enumerate(rows) if r_ > 0)[1]
                gv = mod.permanent_laplace(np.array(A, dtype=np.complex128), np.array(rows, dtype=np.int32), np.array(cols, dtype=np.int32))
                for l in range(n):
                    if cols[l] == 0:
                        continue
                    r2, c2 = list(rows), list(cols)
                    r2[m_idx] -= 1
                    c2[l] -= 1
                    w = perm_ref(expand(A, r2, c2))
                    if abs(gv[l] - w) > 1e-9 * max(1.0, abs(w)):
                        bad.append({"kernel": "permanent_laplace", "rows": rows, "cols": cols, "column": l, "got": complex(gv[l]), "want": complex(w)})
        except Exception as e:      # noqa: BLE001
            _UNKNOWN_CACHE["done"] = {"reproduced": False, "observed": {"error": str(e)[:200]}}
            return _UNKNOWN_CACHE["done"]
        if not bad:
            # with many jobs every job performs few incremental Gray steps: force ONE job (all steps incremental) and compare
            rep = replay_threads()
            if rep.get("reproduced"):
                _UNKNOWN_CACHE["done"] = {"reproduced": True, "observed": {"value_depends_on_the_number_of_jobs": rep.get("bad")},
                                          "replay": {"kind": "threads"}}
                return _UNKNOWN_CACHE["done"]
        _UNKNOWN_CACHE["done"] = {"reproduced": bool(bad), "observed": {"cases": bad[:4]}, "replay": {"kind": "accuracy"}}
    return _UNKNOWN_CACHE["done"]


def _on_failed_vc(vc, r):
    if "concurrency" in vc.goal and vc.kind == "ghost-assert":
        rep = replay_threads()
        return {"replay": {"kind": "threads"}, "reproduced": rep.get("reproduced", False), "observed": rep}
    rep = replay_multiplicity((18, 18))
    return {"replay": {"kind": "native-permanent", "rows": [18, 18]}, "reproduced": rep.get("reproduced", False), "observed": rep}


def replay_threads():
    """both permanent kernels, compiled from /repo/src, with std::thread::hardware_concurrency() forced: the value must not
    depend on the number of jobs (patterns include a Gray range that no tested job count divides)"""
    out = {}
    try:
        lib = native.build()
    except Exception as e:
        return {"error": str(e)[:200], "reproduced": False}
    rng = np.random.default_rng(5)
    bad = []
    for rows, cols in (((2, 3), (4, 1)), ((2, 2, 2, 2, 1), (3, 2, 2, 1, 1)), ((3, 0, 4), (1, 5, 1))):
        n = len(rows)
        A = rng.normal(size=(n, n)) + 1j * rng.normal(size=(n, n))
        for laplace in (False, True):
            ref = None
            for k in [1, 2, 3, 4, 5, 7, 16, 64, 0, 2 ** 30]:
                lib.force_threads(k)
                v = native.permanent(lib, A, list(rows), list(cols), laplace=laplace)
                if ref is None:
                    ref = v
                if np.max(np.abs(v - ref)) > 1e-11 * max(1.0, float(np.max(np.abs(ref)))):
                    bad.append({"kernel": "permanent_laplace" if laplace else "permanent", "rows": rows, "cols": cols,
                                "hardware_concurrency": k, "max_abs_diff": float(np.max(np.abs(v - ref)))})
    lib.force_threads(-1)
    out["bad"] = bad[:8]
    out["reproduced"] = bool(bad)
    return out


def replay(path):
    with open(path) as f:
        rep = json.load(f)
    r = rep.get("replay") or {}
    if r.get("kind") == "native-permanent":
        out = replay_multiplicity(tuple(r["rows"]))
    elif r.get("kind") == "threads":
        out = replay_threads()
    elif r.get("kind") == "gray":
        out = _gray_replay_child()
    else:
        print(rep.get("what"))
        return 1
    print(json.dumps(out, indent=1, default=str)[:2000])
    return 1 if out.get("reproduced") else 0
