"""Index permutations of piquasso/_math/transformations.py for ALL d (pyvc)."""


def check(run):
    from contracts import C06_int  # the integer-function contracts live with C06

    C06_int.check_transformations(run)
