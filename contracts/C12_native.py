"""C12/native: the native kernels never write into memory reachable from their array parameters, unless the
pybind wrapper hands them a copy (write sets from the clang AST of /repo/src, vf/cppframes.py)."""
from __future__ import annotations

from vf import cppframes as cf
from vf.pyvc import Unsupported

KERNELS = [
    # wrapper file, source file, kernels
    ("piquasso/_math/permanent.cpp", "src/permanent.cpp", ["permanent_cpp"]),
    ("piquasso/_math/permanent.cpp", "src/permanent_laplace.cpp", ["permanent_laplace_cpp"]),
    ("piquasso/_math/pfaffian.cpp", "src/pfaffian.cpp", ["pfaffian_cpp"]),
    ("piquasso/_math/torontonian.cpp", "src/torontonian.cpp", ["torontonian_cpp"]),
    ("piquasso/_math/torontonian.cpp", "src/loop_torontonian.cpp", ["loop_torontonian_cpp"]),
]


def check(run):
    for wrapper, src, kernels in KERNELS:
        if run.tier == "quick" and "loop_torontonian" in src:
            run.notes.append("C12/native: loop_torontonian write sets are computed in the thorough tier only (40 s of clang)")
            continue
        try:
            facts = cf.kernel_write_sets(src, kernels)
            views = cf.wrapper_views(wrapper)
        except Unsupported as e:
            run.undecided_ob(f"C12/native/{src}", "cppvc", "clang-write-sets", str(e))
            continue
        for k in kernels:
            oname = f"C12/native/{k}-does-not-write-caller-buffers"
            f = facts.get(k)
            calls = [v for v in views if v["kernel"] == k]
            if f is None or not calls:
                run.undecided_ob(oname, "cppvc", "clang-write-sets", "kernel or its pybind call site not found")
                continue
            run.function(f"{src}:{k}", None, params=len(f.params))
            bad = []
            for call in calls:
                for i, (arg, kind) in enumerate(zip(call["args"], call["kinds"])):
                    if i < len(f.params) and f.params[i] in f.element_writes and kind != "copy":
                        bad.append({"parameter": f.params[i], "argument": arg, "passed_as": kind,
                                    "write_lines": sorted(set(f.element_writes[f.params[i]]))[:6], "wrapper_line": call["line"]})
            if not bad:
                run.discharged(oname, "cppvc", "clang-write-sets", 0.0, sample={
                    "element_writes": {p: sorted(set(v))[:4] for p, v in f.element_writes.items()},
                    "rebinds_wrapper_object_only": sorted(f.rebinds), "wrapper_argument_kinds": [c["kinds"] for c in calls]})
            else:
                rep = replay(k)
                run.failed(oname, "cppvc", "clang-write-sets",
                           what=f"{k} writes elements of `{bad[0]['parameter']}` ({src} lines {bad[0]['write_lines']}) and the pybind wrapper "
                                f"passes a non-owning view of the caller's numpy buffer ({wrapper} line {bad[0]['wrapper_line']})",
                           counterexample={"writes": bad}, replay={"kind": "native-input-unchanged", "kernel": k},
                           reproduced=rep.get("reproduced", False), observed=rep)


def replay(kernel):
    import numpy as np

    from vf import native

    out = {}
    try:
        rng = np.random.default_rng(5)
        if kernel == "pfaffian_cpp":
            m = native.build_pybind("pfaffian")
            K = rng.normal(size=(6, 6))
            K = K - K.T
            K0 = K.copy()
            m.pfaffian(K)
            out["max_abs_change_of_input"] = float(np.max(np.abs(K - K0)))
        elif kernel in ("torontonian_cpp", "loop_torontonian_cpp"):
            m = native.build_pybind("torontonian")
            X = rng.normal(size=(4, 4))
            A = 0.3 * X @ X.T / np.linalg.norm(X @ X.T, 2)
            A0 = A.copy()
            g = rng.normal(size=4)
            g0 = g.copy()
            m.torontonian(A) if kernel == "torontonian_cpp" else m.loop_torontonian(A, g)
            out["max_abs_change_of_input"] = float(max(np.max(np.abs(A - A0)), np.max(np.abs(g - g0))))
        else:
            m = native.build_pybind("permanent")
            A = rng.normal(size=(3, 3)) + 1j * rng.normal(size=(3, 3))
            A0 = A.copy()
            r = np.array([2, 0, 1], dtype=np.int32)
            c = np.array([1, 1, 1], dtype=np.int32)
            r0, c0 = r.copy(), c.copy()
            (m.permanent if kernel == "permanent_cpp" else m.permanent_laplace)(A, r, c)
            out["max_abs_change_of_input"] = float(max(np.max(np.abs(A - A0)), np.max(np.abs(r - r0)), np.max(np.abs(c - c0))))
        out["reproduced"] = out["max_abs_change_of_input"] > 0
    except Exception as e:
        out = {"error": str(e)[:300], "reproduced": False}
    return out
