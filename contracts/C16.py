"""C16 - relabelling modes relabels the result; disjoint gates commute (DESIGN 5/C16).

symtrace (exact, all states / blocks / hbar, enumerated shapes):
  * Gaussian simulator: step(pi.state, block on pi(M)) == pi.step(state, block on M) for every
    permutation pi and ordered tuple M; two blocks on disjoint ordered tuples commute;
  * passive simulator: the same two statements for the interferometer accumulation
    (_apply_matrix_on_modes).
bounded (rtc): Simulator._remap_modes/_remap_modes_inverse/_delete_modes_from_active exhaustively
  on small active tuples; Fock simulators' state under relabelling / commutation numerically.
"""
from __future__ import annotations

import itertools
import json

import numpy as np

from vf import symtrace as st

O = st.to_obj


def permute_state(state, pi):
    """relabel mode i -> pi[i] (in place on a fresh copy of the arrays)"""
    d = len(pi)
    inv = [0] * d
    for i, p in enumerate(pi):
        inv[p] = i
    m, C, G = O(state._m), O(state._C), O(state._G)
    state._m = type(state._m)(m[inv]) if hasattr(state._m, "dtype") and state._m.dtype == object else m[inv]
    state._C = C[np.ix_(inv, inv)]
    state._G = G[np.ix_(inv, inv)]
    return state


def _wrap(env, a):
    return st.exact(env, a) if env.symbolic else np.asarray(a, dtype=complex)


def ob_gaussian_equivariance(d, modes, pi, active):
    def build(env):
        from piquasso._simulators.gaussian import simulation_steps as steps

        n = len(modes)
        Pb = env.cmatrix("P", n)
        Ab = env.cmatrix("A", n) if active else None

        def apply(state, M):
            if active:
                steps._apply_linear(state, Pb, Ab, M)
            else:
                steps._apply_passive_linear(state, Pb, M)

        s1 = env.gaussian_state(d)
        apply(s1, modes)
        inv = [0] * d
        for i, p in enumerate(pi):
            inv[p] = i
        lhs = [O(s1._m)[inv], O(s1._C)[np.ix_(inv, inv)], O(s1._G)[np.ix_(inv, inv)]]
        s2 = env.gaussian_state(d)
        s2._m = _wrap(env, O(s2._m)[inv])
        s2._C = _wrap(env, O(s2._C)[np.ix_(inv, inv)])
        s2._G = _wrap(env, O(s2._G)[np.ix_(inv, inv)])
        apply(s2, tuple(pi[m] for m in modes))
        return lhs, [O(s2._m), O(s2._C), O(s2._G)]

    return build


def ob_gaussian_commute(d, M1, M2, kinds):
    def build(env):
        from piquasso._simulators.gaussian import simulation_steps as steps

        P1, A1 = env.cmatrix("P1_", len(M1)), env.cmatrix("A1_", len(M1))
        P2, A2 = env.cmatrix("P2_", len(M2)), env.cmatrix("A2_", len(M2))

        def g1(s):
            steps._apply_linear(s, P1, A1, M1) if kinds[0] else steps._apply_passive_linear(s, P1, M1)

        def g2(s):
            steps._apply_linear(s, P2, A2, M2) if kinds[1] else steps._apply_passive_linear(s, P2, M2)

        a = env.gaussian_state(d)
        g1(a)
        g2(a)
        b = env.gaussian_state(d)
        g2(b)
        g1(b)
        return [O(a._m), O(a._C), O(a._G)], [O(b._m), O(b._C), O(b._G)]

    return build


def passive_state(env, d):
    from piquasso._simulators.passive.state import PassiveState

    s = PassiveState(d=d, connector=env.connector, config=env.config)
    s.interferometer = env.cmatrix("U", d)
    return s


def ob_passive_equivariance(d, modes, pi):
    def build(env):
        from piquasso._simulators.passive import simulation_steps as steps

        M = env.cmatrix("M", len(modes))
        a = passive_state(env, d)
        steps._apply_matrix_on_modes(a, M, modes)
        inv = [0] * d
        for i, p in enumerate(pi):
            inv[p] = i
        lhs = O(a.interferometer)[inv, :]          # output modes relabelled
        b = passive_state(env, d)
        b.interferometer = _wrap(env, O(b.interferometer)[inv, :])
        steps._apply_matrix_on_modes(b, M, tuple(pi[m] for m in modes))
        return lhs, O(b.interferometer)

    return build


def ob_passive_commute(d, M1, M2):
    def build(env):
        from piquasso._simulators.passive import simulation_steps as steps

        X, Y = env.cmatrix("X", len(M1)), env.cmatrix("Y", len(M2))
        a = passive_state(env, d)
        steps._apply_matrix_on_modes(a, X, M1)
        steps._apply_matrix_on_modes(a, Y, M2)
        b = passive_state(env, d)
        steps._apply_matrix_on_modes(b, Y, M2)
        steps._apply_matrix_on_modes(b, X, M1)
        return O(a.interferometer), O(b.interferometer)

    return build


def disjoint_pairs(d, max_arity=2):
    for k1 in range(1, max_arity + 1):
        for M1 in itertools.permutations(range(d), k1):
            rest = [m for m in range(d) if m not in M1]
            for k2 in range(1, min(max_arity, len(rest)) + 1):
                for M2 in itertools.permutations(rest, k2):
                    yield M1, M2


def obligations(tier):
    obs = {}
    dmax = 3 if tier == "quick" else 4
    for d in range(2, dmax + 1):
        perms = list(itertools.permutations(range(d)))
        if tier == "quick" and d == 3:
            perms = perms[1:]            # all non-identity permutations of 3 labels
        for pi in perms:
            if list(pi) == sorted(pi):
                continue
            for k in (1, 2):
                for modes in itertools.permutations(range(d), k):
                    tag = f"d={d}/pi={''.join(map(str, pi))}/modes=({','.join(map(str, modes))})"
                    obs[f"C16/gaussian/relabel-equivariance/active/{tag}"] = ob_gaussian_equivariance(d, modes, pi, True)
                    if tier != "quick" or k == 2:
                        obs[f"C16/gaussian/relabel-equivariance/passive/{tag}"] = ob_gaussian_equivariance(d, modes, pi, False)
                    obs[f"C16/passive/relabel-equivariance/{tag}"] = ob_passive_equivariance(d, modes, pi)
        for M1, M2 in disjoint_pairs(d):
            tag = f"d={d}/({','.join(map(str, M1))})|({','.join(map(str, M2))})"
            obs[f"C16/gaussian/disjoint-commute/active-active/{tag}"] = ob_gaussian_commute(d, M1, M2, (True, True))
            if tier != "quick":
                obs[f"C16/gaussian/disjoint-commute/passive-active/{tag}"] = ob_gaussian_commute(d, M1, M2, (False, True))
            obs[f"C16/passive/disjoint-commute/{tag}"] = ob_passive_commute(d, M1, M2)
    return obs


# ---------------------------------------------------------------------------------- bounded
def bounded(run):
    import piquasso as pq
    from piquasso.api.simulator import Simulator

    fails, ev, distinct = [], 0, set()
    # mode bookkeeping helpers, exhaustively on small active tuples
    for d in range(1, 6):
        for k in range(1, d + 1):
            for active in itertools.combinations(range(d), k):
                for r in range(1, k + 1):
                    for modes in itertools.permutations(active, r):
                        rem = Simulator._remap_modes(active, modes)
                        ev += 1
                        if tuple(active[i] for i in rem) != tuple(modes):
                            fails.append(("_remap_modes", active, modes, rem))
                        if Simulator._remap_modes_inverse(active, rem) != tuple(modes):
                            fails.append(("_remap_modes_inverse", active, modes))
                        left = Simulator._delete_modes_from_active(active, rem)
                        if left != tuple(m for m in active if m not in modes):
                            fails.append(("_delete_modes_from_active", active, modes, left))
    distinct.add("helpers")
    # Fock simulators: relabelling and disjoint commutation, numerically
    rng = np.random.default_rng(run.seed + 16)
    n_prog = 4 if run.tier == "quick" else 20
    for case in range(n_prog):
        d = 3
        th, ph, th2 = rng.uniform(0, 3, 3)
        pi = list(rng.permutation(d))
        for simname, mk, prep in (
            ("PureFockSimulator", lambda: pq.PureFockSimulator(d=d, config=pq.Config(cutoff=4)),
             lambda rel: [pq.StateVector(tuple(np.array([1, 2, 0])[np.argsort(rel)] if rel is not None else (1, 2, 0)))]),
            ("FockSimulator", lambda: pq.FockSimulator(d=d, config=pq.Config(cutoff=4)),
             lambda rel: [pq.DensityMatrix(ket=tuple(np.array([1, 2, 0])[np.argsort(rel)] if rel is not None else (1, 2, 0)),
                                           bra=tuple(np.array([1, 2, 0])[np.argsort(rel)] if rel is not None else (1, 2, 0)))]),
        ):
            try:
                def gates(rel):
                    f = (lambda m: int(rel[m])) if rel is not None else (lambda m: m)
                    return [pq.Beamsplitter(theta=th, phi=ph).on_modes(f(2), f(0)), pq.Phaseshifter(phi=0.3).on_modes(f(1)),
                            pq.Kerr(xi=0.2).on_modes(f(0)), pq.Beamsplitter(theta=th2).on_modes(f(1), f(2))]

                a = mk().execute_instructions(prep(None) + gates(None)).state
                b = mk().execute_instructions(prep(pi) + gates(pi)).state
                basis = [tuple(int(x) for x in v) for v in __import__("piquasso")._math.fock.get_fock_space_basis(d, 4)]
                pa = dict(zip(basis, np.asarray(a.fock_probabilities)))
                pb = dict(zip(basis, np.asarray(b.fock_probabilities)))
                ev += 1
                distinct.add((simname, case))
                worst = 0.0
                for occ, p in pa.items():
                    rel_occ = [0] * d
                    for i in range(d):
                        rel_occ[pi[i]] = occ[i]
                    worst = max(worst, abs(p - pb[tuple(rel_occ)]))
                if worst > 1e-9:
                    fails.append((simname, "relabelling", [int(x) for x in pi], worst))
                # disjoint commutation
                g = [pq.Beamsplitter(theta=th, phi=ph).on_modes(2, 0), pq.Kerr(xi=0.4).on_modes(1)]
                s1 = mk().execute_instructions(prep(None) + g).state
                s2 = mk().execute_instructions(prep(None) + g[::-1]).state
                if np.max(np.abs(np.asarray(s1.fock_probabilities) - np.asarray(s2.fock_probabilities))) > 1e-9 or not (s1 == s2):
                    fails.append((simname, "disjoint-commutation", None, None))
            except Exception as e:
                fails.append((simname, f"raised {type(e).__name__}: {e}"[:160], None, None))
    # deterministic routing: a number state through a permutation interferometer has ONE outcome; post-selection and
    # measurement tuples in every order must read the right modes (relabelling of the ORDER of a mode tuple)
    d = 4
    routes = [(0, 1, 3, 2), (2, 0, 3, 1)] if run.tier == "quick" else list(itertools.permutations(range(4)))[1::4]
    for route in routes:
        U = np.zeros((d, d), dtype=complex)
        for in_, out in enumerate(route):
            U[out, in_] = 1.0
        occ_in = (1, 2, 0, 1) if run.tier != "quick" else (1, 1, 0, 1)
        occ_out = [0] * d
        for in_, out in enumerate(route):
            occ_out[out] = occ_in[in_]
        sims = {
            "PassiveSimulator": lambda: pq.PassiveSimulator(d=d, config=pq.Config(seed_sequence=3)),
            "PureFockSimulator": lambda: pq.PureFockSimulator(d=d, config=pq.Config(seed_sequence=3, cutoff=sum(occ_in) + 1)),
            "FockSimulator": lambda: pq.FockSimulator(d=d, config=pq.Config(seed_sequence=3, cutoff=sum(occ_in) + 1)),
        }
        for simname, mk in sims.items():
            prep = [pq.DensityMatrix(ket=occ_in, bra=occ_in)] if simname == "FockSimulator" else [pq.NumberState(list(occ_in))]
            cases = []
            for r in (1, 2, 3, 4):
                for meas in itertools.permutations(range(d), r):
                    cases.append((None, meas))
            if simname != "FockSimulator":
                for post in itertools.permutations(range(d), 2):
                    rest = [m for m in range(d) if m not in post]
                    for meas in [tuple(rest), tuple(rest[::-1]), (rest[0],), (rest[1],)]:
                        cases.append((post, meas))
            if run.tier == "quick":
                cases = cases[::3]
            for post, meas in cases:
                ins = prep + [pq.Interferometer(U)]
                if post is not None:
                    ins.append(pq.PostSelectPhotons(photon_counts=tuple(occ_out[m] for m in post)).on_modes(*post))
                ins.append(pq.ParticleNumberMeasurement().on_modes(*meas))
                want = tuple(occ_out[m] for m in meas)
                try:
                    res = mk().execute_instructions(ins, shots=3)
                    got = sorted({tuple(int(x) for x in smp)[-len(meas):] for smp in res.samples})
                    ev += 1
                    if got != [want]:
                        fails.append((simname, "deterministic-routing", {"route": route, "postselect": post, "measure": meas}, {"got": got, "want": want}))
                except pq.api.exceptions.InvalidSimulation:
                    continue
                except Exception as e:      # noqa: BLE001
                    fails.append((simname, f"deterministic-routing raised {type(e).__name__}: {e}"[:160], {"postselect": post, "measure": meas}, None))
        distinct.add(("routing", route))
    # FockState.reduced on every ordered mode tuple
    try:
        st_ = pq.FockSimulator(d=3, config=pq.Config(cutoff=4)).execute_instructions([pq.DensityMatrix(ket=(1, 0, 2), bra=(1, 0, 2))]).state
        for r in (1, 2, 3):
            for modes in itertools.permutations(range(3), r):
                red = st_.reduced(modes)
                probs = np.asarray(red.fock_probabilities)
                basis = [tuple(int(x) for x in v) for v in pq._math.fock.get_fock_space_basis(len(modes), 4)]
                ev += 1
                want = tuple((1, 0, 2)[m] for m in modes)
                if abs(dict(zip(basis, probs)).get(want, 0.0) - 1.0) > 1e-9:
                    fails.append(("FockState.reduced", "ordered tuple", modes, None))
    except Exception as e:      # noqa: BLE001
        fails.append(("FockState.reduced", f"raised {type(e).__name__}: {e}"[:160], None, None))
    # fermionic Gaussian simulator: a gate on a descending mode tuple = the embedded gate = the relabelled gate; disjoint gates commute
    try:
        def ham(A, B):
            return np.block([[-A.conj(), B], [-B.conj(), A]])

        def emb(H, modes, dd):
            idx = np.concatenate([np.array(modes), np.array(modes) + dd])
            E = np.zeros((2 * dd, 2 * dd), dtype=complex)
            E[np.ix_(idx, idx)] = H
            return E

        def frun(ins, dd):
            return pq.fermionic.GaussianSimulator(d=dd).execute_instructions([pq.NumberState([1, 0, 1, 0][:dd])] + ins).state.covariance_matrix

        Am = np.array([[0.3, 0.2 + 0.5j], [0.2 - 0.5j, -0.7]])
        Bm = np.array([[0.0, 0.4 - 0.1j], [-0.4 + 0.1j, 0.0]])
        H = ham(Am, Bm)
        Hs = ham(Am[np.ix_([1, 0], [1, 0])], Bm[np.ix_([1, 0], [1, 0])])
        G = pq.fermionic.GaussianHamiltonian
        for modes in ((2, 0), (1, 0), (2, 1), (0, 2)):
            a = frun([G(hamiltonian=H).on_modes(*modes)], 3)
            b = frun([G(hamiltonian=emb(H, modes, 3)).on_modes(0, 1, 2)], 3)
            c = frun([G(hamiltonian=Hs).on_modes(*modes[::-1])], 3)
            ev += 1
            if np.max(np.abs(a - b)) > 1e-9 or np.max(np.abs(a - c)) > 1e-9:
                fails.append(("fermionic.GaussianSimulator", "gate on ordered tuple = embedded = relabelled", modes,
                              float(max(np.max(np.abs(a - b)), np.max(np.abs(a - c))))))
        g1, g2 = G(hamiltonian=H).on_modes(3, 1), G(hamiltonian=Hs).on_modes(0, 2)
        s12, s21 = frun([g1.copy(), g2.copy()], 4), frun([g2.copy(), g1.copy()], 4)
        ev += 1
        if np.max(np.abs(s12 - s21)) > 1e-9:
            fails.append(("fermionic.GaussianSimulator", "disjoint-commutation", ((3, 1), (0, 2)), float(np.max(np.abs(s12 - s21)))))
        distinct.add("fermionic")
    except Exception as e:      # noqa: BLE001
        fails.append(("fermionic.GaussianSimulator", f"raised {type(e).__name__}: {e}"[:160], None, None))
    if fails:
        run.failed("C16/bounded/relabelling-and-helpers", "rtc", "enumeration", what=f"{len(fails)} bounded check(s) fail; first: {fails[0]}",
                   counterexample={"cases": [repr(f) for f in fails[:8]]}, replay={"kind": "bounded"}, reproduced=True)
    run.bounded_result("C16/bounded/mode-bookkeeping-helpers+Fock-relabelling", domain="Simulator._remap_modes/_remap_modes_inverse/"
                       "_delete_modes_from_active on every active subset of range(d), d<=5, every ordered sub-tuple; "
                       f"{n_prog} random programs on PureFock/Fock simulators (relabelled, disjoint gates swapped); deterministic routing "
                       "through permutation interferometers with post-selection / measurement tuples in every order (Passive, PureFock, "
                       "Fock); FockState.reduced on every ordered tuple; fermionic Gaussian gates on descending tuples",
                       bound="d<=5 helpers exhaustive; Fock d=3 cutoff 4 tol 1e-9", evaluations=ev, distinct=len(distinct), failures=len(fails))


def check(run):
    obs = obligations(run.tier)
    st.discharge(run, obs, functions=[
        "piquasso/_simulators/gaussian/simulation_steps.py:_apply_linear",
        "piquasso/_simulators/gaussian/simulation_steps.py:_apply_passive_linear",
        "piquasso/_simulators/passive/simulation_steps.py:_apply_matrix_on_modes",
        "piquasso/_simulators/passive/state.py:PassiveState._get_active_modes",
    ])
    bounded(run)
    run.trust("vf/sympoly.py normal form; numpy object-array indexing")
    run.assume("floats as reals; shapes enumerated (d<=3 quick, d<=4 thorough; arity <= 2); blocks, states and hbar symbolic")
    run.assume("Fock-simulator index lists (calculate_index_list_for_appling_interferometer, state index matrices) are covered only by the bounded stand-in")
    run.assume("outcome tuples under relabelling follow from C03's structural contracts (outcome concatenation in program order)")


def replay(path):
    with open(path) as f:
        rep = json.load(f)
    name = rep["obligation"]
    obs = obligations("thorough")
    if name not in obs:
        from vf.common import Run

        r = Run("C16", "quick", 0)
        bounded(r)
        return 1 if r.violations else 0
    r, seed, values = st.run_numeric(obs[name])
    print(f"replay {name}: max |lhs-rhs| = {r:.3e}")
    return 1 if r > 1e-9 else 0
