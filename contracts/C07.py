"""C07 - built-in linear gates are physical and act as documented (DESIGN 5/C07).

Engine: symtrace.  Every obligation is a polynomial identity, exact for ALL real parameter
values, all states satisfying the representation invariant and all hbar > 0, at an enumerated
shape (number of modes d, ordered mode tuple).
"""
from __future__ import annotations

import inspect
import itertools
import json
import math

import numpy as np

from vf import symtrace as st
from vf.sympoly import Refuse

FUNCS = [
    "piquasso/_simulators/gaussian/simulation_steps.py:_apply_passive_linear",
    "piquasso/_simulators/gaussian/simulation_steps.py:_apply_passive_linear_to_C_and_G",
    "piquasso/_simulators/gaussian/simulation_steps.py:_apply_passive_linear_to_auxiliary_modes",
    "piquasso/_simulators/gaussian/simulation_steps.py:_apply_linear",
    "piquasso/_simulators/gaussian/simulation_steps.py:_apply_linear_to_C_and_G",
    "piquasso/_simulators/gaussian/simulation_steps.py:_apply_linear_to_auxiliary_modes",
    "piquasso/_simulators/gaussian/simulation_steps.py:passive_linear",
    "piquasso/_simulators/gaussian/simulation_steps.py:linear",
    "piquasso/_simulators/gaussian/simulation_steps.py:displacement",
    "piquasso/_simulators/gaussian/state.py:GaussianState.xxpp_mean_vector",
    "piquasso/_simulators/gaussian/state.py:GaussianState.xxpp_covariance_matrix",
    "piquasso/_simulators/gaussian/state.py:GaussianState._get_auxiliary_modes",
    "piquasso/_math/indices.py:get_operator_index",
    "piquasso/_math/indices.py:get_auxiliary_operator_index",
]

# gates whose parameters are matrices, not reals: physicality is their own _validate (C13)
MATRIX_GATES = {"Interferometer", "GaussianTransform"}


def gate_classes():
    from piquasso.instructions import gates

    out = []
    for name, cls in vars(gates).items():
        if not inspect.isclass(cls) or name.startswith("_"):
            continue
        if issubclass(cls, (gates._PassiveLinearGate, gates._ActiveLinearGate)) and cls.__module__ == gates.__name__:
            out.append(cls)
    return out


def make_gate(cls, env, suffix=""):
    sig = inspect.signature(cls.__init__)
    kwargs = {}
    for pname, p in sig.parameters.items():
        if pname == "self":
            continue
        if p.kind in (p.VAR_POSITIONAL, p.VAR_KEYWORD):
            raise Refuse(f"{cls.__name__}: variadic constructor")
        kwargs[pname] = env.real(f"{cls.__name__}.{pname}{suffix}")
    return cls(**kwargs)


def blocks(gate, env):
    from piquasso.instructions import gates

    Pb = st.exact(env, gate._get_passive_block(env.connector, env.config))
    if isinstance(gate, gates._ActiveLinearGate):
        Ab = st.exact(env, gate._get_active_block(env.connector, env.config))
    else:
        Ab = st.exact(env, np.zeros(Pb.shape))
    return st.to_obj(Pb), st.to_obj(Ab)


def conj(a):
    return env_conj(a)


def env_conj(a):
    out = np.empty(a.shape, dtype=object)
    for idx in np.ndindex(a.shape):
        x = a[idx]
        out[idx] = x.conjugate() if hasattr(x, "conjugate") else x
    return out


def ladder(Pb, Ab):
    """S = [[P, A],[conj A, conj P]] as one object matrix."""
    return np.block([[Pb, Ab], [env_conj(Ab), env_conj(Pb)]])


# ---------------------------------------------------------------------------------- 1
def ob_gate_symplectic(cls):
    def build(env):
        g = make_gate(cls, env)
        Pb, Ab = blocks(g, env)
        n = Pb.shape[0]
        if cls.NUMBER_OF_MODES is not None and n != cls.NUMBER_OF_MODES:
            raise Refuse("block size differs from NUMBER_OF_MODES")
        I = np.identity(n, dtype=object)
        lhs = [Pb @ env_conj(Pb).T - Ab @ env_conj(Ab).T, Pb @ Ab.T - Ab @ Pb.T]
        rhs = [I + 0 * Pb, 0 * Pb]
        return lhs, rhs

    return build


def ob_gate_hbar_free(cls):
    """the ladder-operator transformation of a gate is dimensionless: same blocks at hbar and at hbar = 1"""

    def build(env):
        import piquasso as pq

        g = make_gate(cls, env)
        Pb, Ab = blocks(g, env)
        cfg1 = pq.Config(hbar=1.0, validate=False)
        from piquasso.instructions import gates

        P1 = st.exact(env, g._get_passive_block(env.connector, cfg1))
        A1 = st.exact(env, g._get_active_block(env.connector, cfg1)) if isinstance(g, gates._ActiveLinearGate) else 0 * st.to_obj(P1)
        return [Pb, Ab], [st.to_obj(P1), st.to_obj(A1)]

    return build


def ob_documented_active_matrices(env):
    """S_(c) of Squeezing, QuadraticPhase, ControlledX, ControlledZ as printed in their docstrings"""
    import piquasso as pq

    r, phi, s = env.real("doc.r"), env.angle("doc.phi"), env.real("doc.s")
    ch, sh_ = env.np.cosh(r), env.np.sinh(r)
    e, ec = env.np.exp(1j * phi), env.np.exp(-1j * phi)
    Z = 0 * s
    one = 1 + Z
    h = s / 2
    ih = 1j * (s / 2)
    lhs = [ladder(*blocks(pq.Squeezing(r=r, phi=phi), env)), ladder(*blocks(pq.QuadraticPhase(s=s), env)),
           ladder(*blocks(pq.ControlledX(s=s), env)), ladder(*blocks(pq.ControlledZ(s=s), env)),
           ladder(*blocks(pq.Phaseshifter(phi=phi), env))]
    rhs = [
        np.array([[ch, -e * sh_], [-ec * sh_, ch]], dtype=object),
        np.array([[one + ih, ih], [-ih, one - ih]], dtype=object),
        np.array([[one, -h, Z, h], [h, one, h, Z], [Z, h, one, -h], [h, Z, h, one]], dtype=object),
        np.array([[one, ih, Z, ih], [ih, one, ih, Z], [Z, -ih, one, -ih], [-ih, Z, -ih, one]], dtype=object),
        np.array([[e, Z], [Z, ec]], dtype=object),
    ]
    return lhs, rhs


# ---------------------------------------------------------------------------------- 2
def ob_fourier(env):
    import piquasso as pq

    f = st.to_obj(pq.Fourier()._get_passive_block(env.connector, env.config))
    r = st.to_obj(pq.Phaseshifter(phi=np.pi / 2)._get_passive_block(env.connector, env.config))
    return f, r


def ob_bs5050(env):
    import piquasso as pq

    a = st.to_obj(pq.Beamsplitter5050()._get_passive_block(env.connector, env.config))
    b = st.to_obj(pq.Beamsplitter(theta=np.pi / 4, phi=0.0)._get_passive_block(env.connector, env.config))
    c = st.to_obj(pq.Beamsplitter()._get_passive_block(env.connector, env.config))  # documented default = 50:50
    return [a, a], [b, c]


def ob_machzehnder(env):
    """docstring: MZ(int, ext) = B(pi/4, pi/2) (R(int) + 1) B(pi/4, pi/2) (R(ext) + 1)."""
    import piquasso as pq

    i, e = env.angle("mz.int"), env.angle("mz.ext")
    mz = st.to_obj(pq.MachZehnder(int_=i, ext=e)._get_passive_block(env.connector, env.config))
    B = st.to_obj(pq.Beamsplitter(theta=np.pi / 4, phi=np.pi / 2)._get_passive_block(env.connector, env.config))

    def R1(phi):
        r = st.to_obj(pq.Phaseshifter(phi=phi)._get_passive_block(env.connector, env.config))
        out = np.identity(2, dtype=object)
        out[0, 0] = r[0, 0]
        return out

    return mz, B @ R1(i) @ B @ R1(e)


def ob_squeezing2(env):
    """docstring: S_ij(z) = B_ij(pi/4, 0) [S_i(-z) (x) S_j(z)] B_ij(-pi/4, 0), ladder form,
    and the documented 4x4 matrix."""
    import piquasso as pq

    r, phi = env.real("s2.r"), env.angle("s2.phi")
    g = pq.Squeezing2(r=r, phi=phi)
    S2 = ladder(*blocks(g, env))

    def bs(theta):
        Pb, Ab = blocks(pq.Beamsplitter(theta=theta, phi=0.0), env)
        return ladder(Pb, Ab)

    Pm, Am = blocks(pq.Squeezing(r=-r, phi=phi), env)
    Pp, Ap = blocks(pq.Squeezing(r=r, phi=phi), env)
    Z = 0 * Pm[0, 0]
    Pb = np.array([[Pm[0, 0], Z], [Z, Pp[0, 0]]], dtype=object)
    Ab = np.array([[Am[0, 0], Z], [Z, Ap[0, 0]]], dtype=object)
    mid = ladder(Pb, Ab)
    decomposition = bs(np.pi / 4) @ mid @ bs(-np.pi / 4)

    ch, sh_ = env.np.cosh(r), env.np.sinh(r)
    e = env.np.exp(1j * phi)
    ec = env.np.exp(-1j * phi)
    doc = np.array(
        [[ch, Z, Z, e * sh_], [Z, ch, e * sh_, Z], [Z, ec * sh_, ch, Z], [ec * sh_, Z, Z, ch]], dtype=object
    )
    return [S2, S2], [decomposition, doc]


def ob_documented_matrices(env):
    """Beamsplitter transfer matrix and MachZehnder symplectic block as printed in the docs."""
    import piquasso as pq

    th, ph = env.angle("bs.theta"), env.angle("bs.phi")
    U = st.to_obj(pq.Beamsplitter(theta=th, phi=ph)._get_passive_block(env.connector, env.config))
    t = env.np.cos(th)
    r = env.np.exp(1j * ph) * env.np.sin(th)
    docU = np.array([[t, -r.conjugate()], [r, t]], dtype=object)

    i, e = env.angle("mz.int"), env.angle("mz.ext")
    mz = st.to_obj(pq.MachZehnder(int_=i, ext=e)._get_passive_block(env.connector, env.config))
    ei, ee = env.np.exp(1j * i), env.np.exp(1j * e)
    docMZ = np.array([[ee * (ei - 1), 1j * (ei + 1)], [1j * ee * (ei + 1), 1 - ei]], dtype=object)
    # the docstring prints the matrix without the 1/2 that makes it unitary; the unitary
    # normalisation is fixed by obligation C07/symplectic/MachZehnder, so compare up to it
    return [U, 2 * mz], [docU, docMZ]


# ---------------------------------------------------------------------------------- 3
def xxpp_symplectic(env, d, modes, Pb, Ab):
    """Real xxpp symplectic of the ladder transformation embedded on the ordered tuple."""
    n = len(modes)
    Pe = st.embed(env.np, d, modes, Pb, identity=True)
    Ae = st.embed(env.np, d, modes, Ab, identity=False)
    S = st.exact(env, ladder(Pe, Ae))
    W = st.W_matrix(d, env)
    return W.conj().T @ S @ W


def defect_xxpp(env, d, modes, Pb, Ab):
    """Non-symplecticity defect.  R1 = PP^+ - AA^+ - I, R2 = PA^T - AP^T; both vanish for a
    symplectic (P, A), and then the statement is the plain congruence of the property.  For
    non-symplectic blocks the code's G block is not symmetric and its antisymmetric part is
    +-R2/..., with the sign depending on whether auxiliary modes exist (the auxiliary update
    re-assigns the whole column block from the rows, which transposes the addressed block);
    the sign is read off the code, the rest is the exact image of the moments."""
    n = len(modes)
    I = np.identity(n, dtype=object)
    R1 = Pb @ env_conj(Pb).T - Ab @ env_conj(Ab).T - I
    R2 = (Pb @ Ab.T - Ab @ Pb.T) * (1 if n < d else -1)
    R1e = st.embed(env.np, d, modes, R1, identity=False)
    R2e = st.embed(env.np, d, modes, R2, identity=False)
    D = st.exact(env, np.block([[R1e, R2e], [env_conj(R2e), env_conj(R1e)]]))
    W = st.W_matrix(d, env)
    return W.conj().T @ D @ W


def ob_update(d, modes, active):
    """Update of (mean, covariance) by a generic block on `modes` = congruence by the embedded
    symplectic, minus the explicit non-symplecticity defect (zero for every gate passing
    obligation 1).  xxpp quadrature form, through the real getters."""

    def build(env):
        from piquasso._simulators.gaussian import simulation_steps as steps

        state = env.gaussian_state(d)
        mu = st.to_obj(state.xxpp_mean_vector).copy()
        sigma = st.to_obj(state.xxpp_covariance_matrix).copy()
        n = len(modes)
        Pb = env.cmatrix("P", n)
        if active:
            Ab = env.cmatrix("A", n)
            steps._apply_linear(state, Pb, Ab, modes)
        else:
            Ab = 0 * st.to_obj(Pb)
            steps._apply_passive_linear(state, Pb, modes)
        Pb, Ab = st.to_obj(Pb), st.to_obj(Ab)
        S = xxpp_symplectic(env, d, modes, Pb, Ab)
        D = defect_xxpp(env, d, modes, Pb, Ab)
        mu2 = st.to_obj(state.xxpp_mean_vector)
        sigma2 = st.to_obj(state.xxpp_covariance_matrix)
        return [mu2, sigma2], [S @ mu, S @ sigma @ S.T - env.hbar * D]

    return build


def ob_gate_update(cls, d, modes):
    """Direct form of the property for one built-in gate: real step function, plain congruence."""

    def build(env):
        from piquasso._simulators.gaussian import simulation_steps as steps
        from piquasso.instructions import gates

        state = env.gaussian_state(d)
        mu = st.to_obj(state.xxpp_mean_vector).copy()
        sigma = st.to_obj(state.xxpp_covariance_matrix).copy()
        g = make_gate(cls, env).on_modes(*modes)
        Pb, Ab = blocks(g, env)
        if isinstance(g, gates._ActiveLinearGate):
            steps.linear(state, g, shots=1)
        else:
            steps.passive_linear(state, g, shots=1)
        S = xxpp_symplectic(env, d, modes, Pb, Ab)
        return [st.to_obj(state.xxpp_mean_vector), st.to_obj(state.xxpp_covariance_matrix)], [S @ mu, S @ sigma @ S.T]

    return build


# ---------------------------------------------------------------------------------- 4
def ob_displacement(cls_name, d, mode):
    def build(env):
        import piquasso as pq
        from piquasso._simulators.gaussian import simulation_steps as steps

        state = env.gaussian_state(d)
        mu = st.to_obj(state.xxpp_mean_vector).copy()
        sigma = st.to_obj(state.xxpp_covariance_matrix).copy()
        if cls_name == "Displacement":
            r, phi = env.real("disp.r"), env.angle("disp.phi")
            g = pq.Displacement(r=r, phi=phi)
            re_alpha, im_alpha = r * env.np.cos(phi), r * env.np.sin(phi)
        elif cls_name == "PositionDisplacement":
            x = env.real("disp.x")
            g = pq.PositionDisplacement(x=x)
            re_alpha, im_alpha = x, 0 * x
        else:
            p = env.real("disp.p")
            g = pq.MomentumDisplacement(p=p)
            re_alpha, im_alpha = 0 * p, p
        g = g.on_modes(mode)
        steps.displacement(state, g, shots=1)
        shift = np.zeros(2 * d, dtype=object)
        scale = env.sqrt_hbar * math.sqrt(2)
        shift[mode] = scale * re_alpha
        shift[d + mode] = scale * im_alpha
        return [st.to_obj(state.xxpp_mean_vector), st.to_obj(state.xxpp_covariance_matrix)], [mu + shift, sigma]

    return build


def ordered_tuples(d, max_arity=None):
    for k in range(1, (max_arity or d) + 1):
        yield from itertools.permutations(range(d), k)


def obligations(tier):
    obs = {}
    classes = gate_classes()
    for cls in classes:
        if cls.__name__ in MATRIX_GATES:
            continue
        obs[f"C07/symplectic/{cls.__name__}"] = ob_gate_symplectic(cls)
        obs[f"C07/hbar-free-blocks/{cls.__name__}"] = ob_gate_hbar_free(cls)
    obs["C07/identity/Fourier=Phaseshifter(pi/2)"] = ob_fourier
    obs["C07/identity/Beamsplitter5050=Beamsplitter(pi/4,0)"] = ob_bs5050
    obs["C07/identity/MachZehnder-decomposition"] = ob_machzehnder
    obs["C07/identity/Squeezing2-decomposition-and-matrix"] = ob_squeezing2
    obs["C07/identity/documented-matrices"] = ob_documented_matrices
    obs["C07/identity/documented-active-matrices"] = ob_documented_active_matrices
    dmax = 3 if tier == "quick" else 5
    for d in range(1, dmax + 1):
        for modes in ordered_tuples(d):
            tag = ",".join(map(str, modes))
            obs[f"C07/update=congruence/passive/d={d}/modes=({tag})"] = ob_update(d, modes, False)
            obs[f"C07/update=congruence/active/d={d}/modes=({tag})"] = ob_update(d, modes, True)
    # direct per-gate form at small shapes (all ordered tuples of the gate's arity)
    dg = 3
    for cls in classes:
        if cls.__name__ in MATRIX_GATES or cls.NUMBER_OF_MODES is None:
            continue
        for modes in itertools.permutations(range(dg), cls.NUMBER_OF_MODES):
            tag = ",".join(map(str, modes))
            obs[f"C07/gate-update/{cls.__name__}/d={dg}/modes=({tag})"] = ob_gate_update(cls, dg, modes)
    for name in ("Displacement", "PositionDisplacement", "MomentumDisplacement"):
        for d in (1, 3):
            for mode in range(d):
                obs[f"C07/displacement/{name}/d={d}/mode={mode}"] = ob_displacement(name, d, mode)
    return obs, classes


def check(run):
    obs, classes = obligations(run.tier)
    skipped = [c.__name__ for c in classes if c.__name__ in MATRIX_GATES]
    run.notes.append(f"linear gate classes found in piquasso.instructions.gates: {[c.__name__ for c in classes]}")
    run.notes.append(f"matrix-parameter gates (physicality is their own _validate, see C13): {skipped}")
    for c in classes:
        run.function(f"piquasso/instructions/gates.py:{c.__name__}._get_passive_block")
    st.discharge(run, obs, functions=FUNCS)
    run.trust("vf/sympoly.py normal form (relation set = its own Groebner basis: coprime leading terms)")
    run.trust("numpy object-array semantics of indexing / matmul / block (numpy itself executes them)")
    run.assume("IEEE doubles are treated as reals; float constants k*pi/4 and sqrt(2) multiples are recognised by bit pattern and replaced by exact atoms")
    run.assume("shapes are enumerated (d <= 3 quick, d <= 5 thorough, every ordered mode tuple); parameters, state and hbar are unbounded symbols")
    run.assume("'all sequences of gates and displacements' follows by induction over the program with the per-step obligations as the step (two-line argument over contracts, not mechanised)")


def replay(path):
    with open(path) as f:
        rep = json.load(f)
    name = rep["obligation"]
    tier = "thorough"
    obs, _ = obligations(tier)
    if name not in obs:
        print(f"unknown obligation {name}")
        return 3
    r, seed, values = st.run_numeric(obs[name], seeds=(rep.get("replay", {}).get("seed") or 1, 7, 11))
    print(f"replay {name}: max |lhs - rhs| on the real code (NumpyConnector) = {r:.3e} at seed {seed}")
    print(json.dumps(values, indent=1)[:1500])
    return 1 if r > 1e-9 else 0
