"""C06, fermionic half: the first-quantised successor and the rank function are mutually consistent - for ALL d and
particle numbers (pyvc on the real njit functions of piquasso/fermionic/_utils.py).

  FT(f, d, n, k) = sum_{i<k} C(d - f[i] - 1, n - i)            (spec function, unfold equation)
  rank(f)        = C(d, n) - 1 - FT(f, d, n, n)                   = get_fock_subspace_index_first_quantized(f, d)

  next_first_quantized(f, d), f strictly increasing in [0, d):
     - if some position has room:  the result is the lexicographic successor (same length, strictly increasing, in range) and
       FT(result) = FT(f) - 1, i.e. rank(result) = rank(f) + 1;
     - otherwise (f = [d-n, ..., d-1], the last vector of its sector): the result is [0, ..., n] (the first vector of the next
       sector), whose FT is C(d, n+1) - 1, i.e. rank 0.
  get_cutoff_fock_space_dimension(d, c) = sum_{k<c} C(d, k).

Together with rank(first vector) = 0 this is the induction step of `basis[r]` has rank r` for the fermionic enumeration; the
induction itself (over get_fock_space_basis, which also converts between occupation vectors and first-quantised form) is
covered by the bounded stand-in only.  The hockey-stick sums are ghost lemmas proved here by pyvc from Lean's pascal.
"""
from __future__ import annotations

import ast

from contracts.C06_int import COMB_CALLEE, LEMMAS, SPEC
from vf import pyvc

SEQ = ("Seq", "Int")
INT32 = 2147483647
REL = "piquasso/fermionic/_utils.py"

SPEC.funs.update({
    "FT": ([SEQ, "Int", "Int", "Int"], "Int"),
    "HS": (["Int", "Int", "Int"], "Int"),          # sum_{t<j} C(a-1-t, m-t)
    "SUMC": (["Int", "Int"], "Int"),               # sum_{k<c} C(d, k)
})
LEMMAS.update({
    "FT_unfold": dict(params=[("f", SEQ), ("d", "Int"), ("n", "Int"), ("k", "Int")], lean="definition (recursive spec function)",
                      formula="FT(f, d, n, k) == ite(k <= 0, 0, FT(f, d, n, k - 1) + C(d - f[k - 1] - 1, n - (k - 1)))"),
    "HS_unfold": dict(params=[("a", "Int"), ("m", "Int"), ("j", "Int")], lean="definition (recursive spec function)",
                      formula="HS(a, m, j) == ite(j <= 0, 0, HS(a, m, j - 1) + C(a - 1 - (j - 1), m - (j - 1)))"),
    "SUMC_unfold": dict(params=[("d", "Int"), ("c", "Int")], lean="definition (recursive spec function)",
                        formula="SUMC(d, c) == ite(c <= 0, 0, SUMC(d, c - 1) + C(d, c - 1))"),
    # ghost lemmas (proved below by pyvc)
    "hockey": dict(params=[("a", "Int"), ("m", "Int")], lean="ghost lemma C06_fermi.hockey (pyvc, from pascal / C_zero)",
                   formula="implies(0 <= m and m <= a, HS(a, m, m) == C(a, m) - 1)"),
    "FT_prefix": dict(params=[("f", SEQ), ("g", SEQ), ("d", "Int"), ("n", "Int"), ("k", "Int")], lean="ghost lemma C06_fermi.ft_prefix (pyvc)",
                      formula="implies(0 <= k and forall(lambda j: g[j] == f[j], 0, k), FT(g, d, n, k) == FT(f, d, n, k))"),
    "FT_tail_max": dict(params=[("f", SEQ), ("d", "Int"), ("n", "Int"), ("p", "Int")], lean="ghost lemma C06_fermi.ft_tail_max (pyvc)",
                        formula="implies(0 <= p and p <= n and forall(lambda j: f[j] == d - n + j, p, n), FT(f, d, n, n) == FT(f, d, n, p))"),
    "FT_tail_run": dict(params=[("f", SEQ), ("d", "Int"), ("n", "Int"), ("p", "Int")], lean="ghost lemma C06_fermi.ft_tail_run (pyvc)",
                        formula="implies(0 <= p and p < n and forall(lambda j: f[j] == f[p] + (j - p), p, n), "
                                "FT(f, d, n, n) - FT(f, d, n, p) == HS(d - f[p], n - p, n - p))"),
})

GHOST_SRC = '''
def hockey(a, m):
    j = 0
    while j < m:
        j = j + 1
    return 0


def ft_prefix(f, g, d, n, k):
    i = 0
    while i < k:
        i = i + 1
    return 0


def ft_tail_max(f, d, n, p):
    i = p
    while i < n:
        i = i + 1
    return 0


def ft_tail_run(f, d, n, p):
    i = p
    while i < n:
        i = i + 1
    return 0


def first_vector_has_rank_zero(f, d, n):
    return 0
'''

GHOST = {
    "hockey": dict(
        params=[("a", "Int"), ("m", "Int")], returns="Int", requires=["0 <= m", "m <= a"], ensures=["HS(a, m, m) == C(a, m) - 1"],
        # C(a, m) = sum_{t<j} C(a-1-t, m-t) + C(a-j, m-j)
        loops={"0": dict(invariant=["0 <= j", "j <= m", "HS(a, m, j) + C(a - j, m - j) == C(a, m)"])},
        ghost={"loop[0].before": ["use('HS_unfold', a, m, 0)"],
               "loop[0].start": ["use('HS_unfold', a, m, j + 1)", "use('pascal', a - j - 1, m - j - 1)"],
               "exit": ["use('C_zero', a - m)"]}),
    "ft_prefix": dict(
        params=[("f", SEQ), ("g", SEQ), ("d", "Int"), ("n", "Int"), ("k", "Int")], returns="Int",
        requires=["0 <= k", "forall(lambda j: g[j] == f[j], 0, k)"], ensures=["FT(g, d, n, k) == FT(f, d, n, k)"],
        loops={"0": dict(invariant=["0 <= i", "i <= k", "FT(g, d, n, i) == FT(f, d, n, i)"])},
        ghost={"loop[0].before": ["use('FT_unfold', f, d, n, 0)", "use('FT_unfold', g, d, n, 0)"],
               "loop[0].start": ["use('FT_unfold', f, d, n, i + 1)", "use('FT_unfold', g, d, n, i + 1)"]}),
    "ft_tail_max": dict(
        params=[("f", SEQ), ("d", "Int"), ("n", "Int"), ("p", "Int")], returns="Int",
        requires=["0 <= p", "p <= n", "forall(lambda j: f[j] == d - n + j, p, n)"], ensures=["FT(f, d, n, n) == FT(f, d, n, p)"],
        loops={"0": dict(invariant=["p <= i", "i <= n", "FT(f, d, n, i) == FT(f, d, n, p)"])},
        # the term of a position that is at its maximum: C(n - i - 1, n - i) = 0
        ghost={"loop[0].start": ["use('FT_unfold', f, d, n, i + 1)", "use('C_out', n - i - 1, n - i)"]}),
    "ft_tail_run": dict(
        params=[("f", SEQ), ("d", "Int"), ("n", "Int"), ("p", "Int")], returns="Int",
        requires=["0 <= p", "p < n", "forall(lambda j: f[j] == f[p] + (j - p), p, n)"],
        ensures=["FT(f, d, n, n) - FT(f, d, n, p) == HS(d - f[p], n - p, n - p)"],
        loops={"0": dict(invariant=["p <= i", "i <= n", "FT(f, d, n, i) - FT(f, d, n, p) == HS(d - f[p], n - p, i - p)"])},
        ghost={"loop[0].before": ["use('HS_unfold', d - f[p], n - p, 0)"],
               "loop[0].start": ["use('FT_unfold', f, d, n, i + 1)", "use('HS_unfold', d - f[p], n - p, i - p + 1)"]}),
}

GHOST["first_vector_has_rank_zero"] = dict(
    # [0, 1, ..., n-1] is what next_first_quantized returns when it opens a sector, and what the enumeration starts from
    params=[("f", SEQ), ("d", "Int"), ("n", "Int")], returns="Int",
    requires=["1 <= n", "n <= d", "forall(lambda j: f[j] == j, 0, n)"],
    ensures=["C(d, n) - 1 - FT(f, d, n, n) == 0"],
    ghost={"entry": ["use('FT_tail_run', f, d, n, 0)", "use('hockey', d, n)", "use('FT_unfold', f, d, n, 0)"]},
)

STRICT = "forall(lambda j: 0 <= {0}[j] and {0}[j] < d and implies(j + 1 < len({0}), {0}[j] < {0}[j + 1]), 0, len({0}))"

NEXT = dict(
    params=[("first_quantized", SEQ), ("d", "Int")], returns=SEQ, int64=True, array_width=64,
    requires=[STRICT.format("first_quantized"), f"0 <= d and d <= {INT32}", f"len(first_quantized) <= {INT32}"],
    ensures=[
        "len(result) == len(old(first_quantized)) or len(result) == len(old(first_quantized)) + 1",
        # a position has room: lexicographic successor inside the sector, rank + 1
        "implies(len(result) == len(old(first_quantized)), "
        "FT(result, d, len(result), len(result)) == FT(old(first_quantized), d, len(result), len(result)) - 1 and "
        + STRICT.format("result") + ")",
        # no room: the vector was the last of its sector and the result is the first of the next one
        "implies(len(result) == len(old(first_quantized)) + 1, "
        "forall(lambda j: old(first_quantized)[j] == d - len(old(first_quantized)) + j, 0, len(old(first_quantized))) and "
        "forall(lambda j: result[j] == j, 0, len(result)))",
    ],
    loops={
        "0": dict(invariant=[
            "0 <= i", "i <= l", "l == len(first_quantized)", "len(first_quantized) == len(old(first_quantized))",
            "forall(lambda j: first_quantized[j] == old(first_quantized)[j], 0, l)",
            "forall(lambda j: first_quantized[j] == d - l + j, l - i, l)"]),
        "0.0": dict(invariant=[
            "l - i <= k", "k <= l", "len(first_quantized) == l",
            "first_quantized[l - i - 1] == old(first_quantized)[l - i - 1] + 1",
            "forall(lambda j: first_quantized[j] == old(first_quantized)[j], 0, l - i - 1)",
            "forall(lambda j: first_quantized[j] == first_quantized[l - i - 1] + (j - (l - i - 1)), l - i - 1, k)",
            "forall(lambda j: first_quantized[j] == old(first_quantized)[j], k, l)"]),
        "1": dict(invariant=["0 <= i", "i <= l + 1", "len(next_first_quantized) == l + 1",
                             "forall(lambda j: next_first_quantized[j] == j, 0, i)"]),
    },
    ghost_before={
        "return first_quantized": [
            "let('p_', l - i - 1)", "let('o_', old(first_quantized))",
            "use('FT_prefix', o_, first_quantized, d, l, p_)",
            "use('FT_tail_max', o_, d, l, p_ + 1)",
            "use('FT_tail_run', first_quantized, d, l, p_)",
            "use('FT_unfold', o_, d, l, p_ + 1)",
            "use('hockey', d - first_quantized[p_], l - p_)",
        ],
    },
)

RANK = dict(
    params=[("first_quantized", SEQ), ("d", "Int")], returns="Int", int64=True,
    requires=[STRICT.format("first_quantized"), f"0 <= d and d <= {INT32}", f"len(first_quantized) <= {INT32}",
              # the property's own range: the sector size and every partial sum fit 32 bits
              f"C(d, len(first_quantized)) <= {INT32}",
              f"forall(lambda k: 0 <= FT(first_quantized, d, len(first_quantized), k) and FT(first_quantized, d, len(first_quantized), k) <= {INT32}, 0, len(first_quantized) + 1)",
              f"forall(lambda k: 0 <= C(d - first_quantized[k] - 1, len(first_quantized) - k) and C(d - first_quantized[k] - 1, len(first_quantized) - k) <= {INT32}, 0, len(first_quantized))"],
    ensures=["result == ite(len(first_quantized) == 0, 0, C(d, len(first_quantized)) - 1 - FT(first_quantized, d, len(first_quantized), len(first_quantized)))"],
    loops={"0": dict(invariant=["0 <= i", "i <= n", "n == len(first_quantized)", "sum_ == C(d, n) - 1 - FT(first_quantized, d, n, i)"])},
    ghost={"entry": ["use('symm', d, len(first_quantized))", "use('C_out', d, len(first_quantized))", "use('C_pos', d, len(first_quantized))",
                     f"use('mul_bound', C(d, len(first_quantized)), min(len(first_quantized), d - len(first_quantized)), {INT32})"],
           "loop[0].before": ["use('FT_unfold', first_quantized, d, n, 0)", "use('C_pos', d, n)", "use('C_out', d, n)"],
           "loop[0].start": ["use('FT_unfold', first_quantized, d, n, i + 1)",
                             "use('C_out', d - first_quantized[i] - 1, n - i)", "use('C_pos', d - first_quantized[i] - 1, n - i)",
                             "use('symm', d - first_quantized[i] - 1, n - i)",
                             f"use('mul_bound', C(d - first_quantized[i] - 1, n - i), min(n - i, d - first_quantized[i] - 1 - (n - i)), {INT32})"]},
)

DIM = dict(
    params=[("d", "Int"), ("cutoff", "Int")], returns="Int", int64=True,
    requires=[f"0 <= d and d <= {INT32}", f"0 <= cutoff and cutoff <= {INT32}",
              f"forall(lambda k: 0 <= C(d, k) and C(d, k) <= {INT32} and 0 <= SUMC(d, k) and SUMC(d, k) <= {INT32}, 0, cutoff + 1)"],
    ensures=["result == SUMC(d, cutoff)"],
    loops={"0": dict(invariant=["0 <= k", "k <= cutoff", "sum_ == SUMC(d, k)"])},
    ghost={"loop[0].before": ["use('SUMC_unfold', d, 0)"], "loop[0].start": ["use('SUMC_unfold', d, k + 1)"]},
)
SUBDIM_CALLEE = dict(params=[("d", "Int"), ("k", "Int")], returns="Int",
                     requires=[f"0 <= d and d <= {INT32}", f"0 <= k and k <= {INT32}", f"C(d, k) <= {INT32}"], ensures=["result == C(d, k)"])
SUBDIM = dict(params=[("d", "Int"), ("k", "Int")], returns="Int", int64=True, requires=SUBDIM_CALLEE["requires"], ensures=["result == C(d, k)"],
              ghost={"entry": ["use('symm', d, k)", "use('C_out', d, k)", f"use('mul_bound', C(d, k), min(k, d - k), {INT32})"]})

# occupation vector (0/1 entries) <-> first-quantised form (the strictly increasing list of occupied modes)
SPEC.funs["CNT"] = ([SEQ, "Int"], "Int")          # number of ones among v[0..k)   (= sum_{j<k} v[j] for 0/1 vectors)
LEMMAS["CNT_unfold"] = dict(params=[("v", SEQ), ("k", "Int")], lean="definition (recursive spec function)",
                            formula="CNT(v, k) == ite(k <= 0, 0, CNT(v, k - 1) + v[k - 1])")
LEMMAS["CNT_mono"] = dict(params=[("v", SEQ), ("a", "Int"), ("b", "Int")], lean="ghost lemma C06_fermi.cnt_mono (pyvc)",
                          formula="implies(0 <= a and a <= b and forall(lambda j: v[j] == 0 or v[j] == 1, a, b), "
                                  "CNT(v, a) <= CNT(v, b) and CNT(v, b) <= CNT(v, a) + (b - a))")
GHOST_SRC += '''

def cnt_mono(v, a, b):
    i = a
    while i < b:
        i = i + 1
    return 0
'''
GHOST["cnt_mono"] = dict(
    params=[("v", SEQ), ("a", "Int"), ("b", "Int")], returns="Int",
    requires=["0 <= a", "a <= b", "forall(lambda j: v[j] == 0 or v[j] == 1, a, b)"],
    ensures=["CNT(v, a) <= CNT(v, b)", "CNT(v, b) <= CNT(v, a) + (b - a)"],
    loops={"0": dict(invariant=["a <= i", "i <= b", "CNT(v, a) <= CNT(v, i)", "CNT(v, i) <= CNT(v, a) + (i - a)"])},
    ghost={"loop[0].start": ["use('CNT_unfold', v, i + 1)"]})

BITS = "forall(lambda j: occupation_numbers[j] == 0 or occupation_numbers[j] == 1, 0, len(occupation_numbers))"
SUM_CALLEE = dict(params=[("v", SEQ)], returns="Int", requires=[], ensures=["result == CNT(v, len(v))"])
TO_FIRST = dict(
    params=[("occupation_numbers", SEQ)], returns=SEQ, int64=True, array_width=64,
    requires=[BITS, f"len(occupation_numbers) <= {INT32}"],
    ensures=["len(result) == CNT(occupation_numbers, len(occupation_numbers))",
             # the k-th entry is the position of the k-th one: strictly increasing, exactly the occupied modes
             "forall(lambda k: 0 <= result[k] and result[k] < len(occupation_numbers) and occupation_numbers[result[k]] == 1 and "
             "CNT(occupation_numbers, result[k]) == k, 0, len(result))"],
    loops={"0": dict(invariant=[
        "0 <= i", "i <= len(occupation_numbers)", "len(first_quantized) == n", "n == CNT(occupation_numbers, len(occupation_numbers))",
        "j == CNT(occupation_numbers, i)", "0 <= j", "j <= n",
        "forall(lambda k: 0 <= first_quantized[k] and first_quantized[k] < i and occupation_numbers[first_quantized[k]] == 1 and "
        "CNT(occupation_numbers, first_quantized[k]) == k, 0, j)"])},
    ghost_before={"first_quantized = np.zeros": ["use('CNT_unfold', occupation_numbers, 0)",
                                                 "use('CNT_mono', occupation_numbers, 0, len(occupation_numbers))"]},
    ghost={"loop[0].before": ["use('CNT_unfold', occupation_numbers, 0)", "use('CNT_mono', occupation_numbers, 0, len(occupation_numbers))"],
           "loop[0].start": ["use('CNT_unfold', occupation_numbers, i + 1)",
                             "use('CNT_mono', occupation_numbers, i + 1, len(occupation_numbers))"]},
)
TO_SECOND = dict(
    params=[("first_quantized", SEQ), ("d", "Int")], returns=SEQ, int64=True, array_width=64,
    requires=["0 <= d", "forall(lambda j: 0 <= first_quantized[j] and first_quantized[j] < d, 0, len(first_quantized))"],
    ensures=["len(result) == d", "forall(lambda m: result[m] == 0 or result[m] == 1, 0, d)",
             "forall(lambda j: result[first_quantized[j]] == 1, 0, len(first_quantized))",
             # a mode is occupied only if it is listed
             "forall(lambda m: implies(forall(lambda j: first_quantized[j] != m, 0, len(first_quantized)), result[m] == 0), 0, d)"],
    loops={"0": dict(invariant=["0 <= i", "i <= len(first_quantized)", "len(ret) == d",
                                "forall(lambda m: ret[m] == 0 or ret[m] == 1, 0, d)",
                                "forall(lambda j: ret[first_quantized[j]] == 1, 0, i)",
                                "forall(lambda m: implies(forall(lambda j: first_quantized[j] != m, 0, i), ret[m] == 0), 0, d)"])},
)

FUNCTIONS = {
    f"{REL}:_to_first_quantized": (TO_FIRST, {"sum": SUM_CALLEE}),
    f"{REL}:_to_second_quantized": (TO_SECOND, {}),
    f"{REL}:next_first_quantized": (NEXT, {}),
    f"{REL}:get_fock_subspace_index_first_quantized": (RANK, {"comb": COMB_CALLEE}),
    f"{REL}:get_fock_subspace_dimension": (SUBDIM, {"comb": COMB_CALLEE}),
    f"{REL}:get_cutoff_fock_space_dimension": (DIM, {"get_fock_subspace_dimension": SUBDIM_CALLEE}),
}


def check_ghost(run, only=None):
    from contracts import C04_native as N      # shared reporting of translated / ghost functions

    saved = N.SPEC, N.LEMMAS
    N.SPEC, N.LEMMAS = SPEC, LEMMAS
    try:
        tree = ast.parse(GHOST_SRC)
        for fn, contract in GHOST.items():
            if only and fn not in only:
                continue
            node = next(n for n in tree.body if isinstance(n, ast.FunctionDef) and n.name == fn)
            fid = f"contracts/C06_fermi.py:{fn}"
            N.report(run, N.verify_translated(run, fid, node, ast.unparse(node), contract, {}))
    finally:
        N.SPEC, N.LEMMAS = saved


def check(run, only=None):
    check_ghost(run)
    for fid, (contract, callees) in FUNCTIONS.items():
        if only and only not in fid:
            continue
        if getattr(run, "only", None) and run.only not in fid:
            continue
        rel, qn = fid.split(":")
        pyvc.verify_function(run, rel, qn, contract, SPEC, callees)
