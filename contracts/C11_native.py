"""C11/native: the permanent kernel's Gray-code range is tiled by the job ranges for EVERY value that
std::thread::hardware_concurrency() may return (cppvc obligations of the kernel contract that concern the
job partition), plus a bounded replay with forced thread counts on the kernels compiled from /repo/src."""
from __future__ import annotations

import numpy as np

from contracts import C04_native as N
from vf import native


def _tiling_vc(vc):
    return vc.kind == "ghost-assert" and ("loop[4].before" in vc.name or "loop[4.0].before" in vc.name)


def _tiling_vc_laplace(vc):
    return vc.kind == "ghost-assert" and ("loop[3].before" in vc.name or "loop[3.0].before" in vc.name or "loop[3.2].before" in vc.name)


def check(run):
    out = N.check_kernel_suffix(run, vc_filter=_tiling_vc)
    if out is not None:
        res, _ = out
        renamed = {}
        for name, (vc, r) in res.items():
            renamed[name.replace("/ghost-assert/", "/C11-job-tiling/")] = (vc, r)
        if not renamed:
            run.undecided_ob("C11/native/job-tiling", "cppvc", "vcgen", "no tiling obligations were generated: contract no longer binds")
        N.report(run, renamed, on_failed=_on_failed)
    out = N.check_laplace(run, vc_filter=_tiling_vc_laplace)
    if out is not None:
        res, _ = out
        renamed = {name.replace("/ghost-assert/", "/C11-job-tiling/"): v for name, v in res.items()}
        if not renamed:
            run.undecided_ob("C11/native/job-tiling-laplace", "cppvc", "vcgen", "no tiling obligations were generated: contract no longer binds")
        N.report(run, renamed, on_failed=_on_failed)
    # the counter's state is a function of its offset: whatever job reaches offset t, by construction or by next(), holds the same code
    from contracts import C04_gray
    C04_gray.check_ghost(run, only=("val_bound", "parg_same", "val_unique", "gray_unique", "state_is_a_function_of_the_offset"))
    bounded(run)
    run.assume("C11/native: equality of the SET of addends for every job count is proved (tiling + counter state is a function of the "
               "offset: the counter's constructor and next() are verified against the class invariant offset = mixed-radix value of the digits, "
               "contracts/C04_gray.py); bitwise equality of the floating sum is not claimed")


def _on_failed(vc, r):
    """replay of a refuted job-partition obligation: forced hardware_concurrency values on the kernels rebuilt from the tree,
    once in this process and once in a child whose OpenMP runtime grants fewer threads than jobs (OMP_THREAD_LIMIT=2)"""
    import json
    import os
    import subprocess
    import sys

    from contracts import C04

    rep = C04.replay_threads()
    if not rep.get("reproduced"):
        env = dict(os.environ, OMP_THREAD_LIMIT="2", OMP_DYNAMIC="true")
        code = ("import sys, json; sys.path.insert(0, %r); from contracts import C04; "
                "print('REPLAY=' + json.dumps(C04.replay_threads(), default=str))" % os.path.dirname(os.path.dirname(os.path.abspath(__file__))))
        try:
            p = subprocess.run([sys.executable, "-c", code], env=env, capture_output=True, text=True, timeout=1800)
            line = next((l for l in p.stdout.splitlines() if l.startswith("REPLAY=")), None)
            if line:
                rep2 = json.loads(line[7:])
                rep2["environment"] = {"OMP_THREAD_LIMIT": "2", "OMP_DYNAMIC": "true"}
                if rep2.get("reproduced"):
                    rep = rep2
        except Exception as e:      # noqa: BLE001
            rep["child_error"] = str(e)[:200]
    return {"replay": {"kind": "threads"}, "reproduced": rep.get("reproduced", False), "observed": rep}


def bounded(run):
    try:
        lib = native.build()
    except Exception as e:
        run.broken_ob("C11/native/build", str(e)[:300])
        return
    rng = np.random.default_rng(run.seed + 11)
    fails, ev, distinct = [], 0, set()
    counts = [0, 1, 2, 3, 5, 7, 16, 33, 64] if run.tier == "quick" else list(range(0, 65)) + [2 ** 30, 2 ** 32 - 1]
    for rows, cols in (((2, 3), (4, 1)), ((1, 2, 2), (2, 2, 1)), ((6, 6), (6, 6)), ((3, 0, 4), (1, 5, 1)), ((1,), (1,)), ((9, 1), (5, 5)), ((2, 2, 2, 2, 1), (3, 2, 2, 1, 1))):
        n = len(rows)
        A = rng.normal(size=(n, n)) + 1j * rng.normal(size=(n, n))
        for laplace in (False, True):
            ref = None
            for k in counts:
                lib.force_threads(k)
                v = native.permanent(lib, A, list(rows), list(cols), laplace=laplace)
                ev += 1
                if ref is None:
                    ref = v
                if np.max(np.abs(v - ref)) > 1e-11 * max(1.0, float(np.max(np.abs(ref)))):
                    fails.append({"kernel": "permanent_laplace" if laplace else "permanent", "rows": rows, "cols": cols,
                                  "hardware_concurrency": k, "max_abs_diff": float(np.max(np.abs(v - ref)))})
            distinct.add((rows, cols, laplace))
    lib.force_threads(-1)
    if fails:
        run.failed("C11/native/bounded/result-independent-of-hardware_concurrency", "rtc", "enumeration",
                   what=f"kernel value depends on the number of jobs: {fails[0]}", counterexample=fails[0],
                   replay={"kind": "threads"}, reproduced=True, observed={"failures": fails[:6]})
    run.bounded_result("C11/native/forced-hardware_concurrency", domain="permanent_cpp / permanent_laplace_cpp compiled from /repo/src with "
                       "std::thread::hardware_concurrency interposed", bound=f"{len(counts)} forced values incl. 0; 7 multiplicity patterns; tol 1e-11",
                       evaluations=ev, distinct=len(distinct), failures=len(fails))
