"""cppvc contracts for the integer skeleton of the native permanent kernels (C04, C11, C12)."""
from __future__ import annotations

import ast

from contracts.C06_int import LEMMAS as C06_LEMMAS
from vf import cppvc, pyvc
from vf.pyvc import SpecEnv

SEQ = ("Seq", "Int")
INT_MAX = 2147483647

LEMMAS = dict(C06_LEMMAS)
LEMMAS.update({
    "absorb_row": dict(params=[("N", "Int"), ("i", "Int")], lean="PiquassoLemmas.absorb_row",
                       formula="implies(N >= 0 and i >= 1, C(N + 1, i) * i == C(N, i - 1) * (N + 1))"),
    "C_mono_diag": dict(params=[("n", "Int"), ("k", "Int"), ("i", "Int")], lean="PiquassoLemmas.C_mono_diag",
                        formula="implies(0 <= i and i <= k and k <= n, C(n - k + i, i) <= C(n, k))"),
    "div_exact": dict(params=[("a", "Int"), ("b", "Int"), ("c", "Int")], lean="PiquassoLemmas.div_exact",
                      formula="implies(b > 0 and a == b * c, a // b == c)"),
})

SPEC = SpecEnv(funs={"C": (["Int", "Int"], "Int")}, lemmas=LEMMAS)

import math


def binomial_contract(bits):
    """contract of binomialCoeff<int> (bits=32) / binomialCoeff<int64_t> (bits=64)"""
    mx = (1 << (bits - 1)) - 1
    nmax = math.isqrt(mx)
    rng = f"-{mx + 1} <= {{0}} and {{0}} <= {mx}"
    return dict(
        params=[("n", "Int"), ("k", "Int")], returns="Int",
        requires=[rng.format("n"), rng.format("k"), f"n <= {nmax}",
                  # the range in which the machine arithmetic of the function is exact
                  f"implies(0 <= k and k <= n, C(n, k) <= {mx})"],
        ensures=["result == C(old(n), old(k))"],
        loops={"0": dict(invariant=["1 <= i", "i <= k + 1", "result == C(n - k + i - 1, i - 1)", "result >= 1",
                                    "0 <= k", "2 * k <= n", "C(n, k) == C(old(n), old(k))", f"C(n, k) <= {mx}"])},
        ghost={
            "entry": ["use('C_out', n, k)", "use('C_zero', n)", "use('symm', n, k)", "use('C_zero', n - k)", "use('symm', n, n)"],
            "loop[0].before": ["use('C_zero', n - k)"],
            "loop[0].start": [
                "use('absorb_row', n - k + i - 1, i)",
                "use('C_mono_diag', n, k, i)",
                "use('C_pos', n - k + i, i)",
                "use('div_exact', (result % i) * (n - k + i), i, C(n - k + i, i) - (result // i) * (n - k + i))",
            ],
        },
    )


BINOMIAL = binomial_contract(32)
BINOMIAL64 = binomial_contract(64)


def verify_cpp(run, src_rel, filt, name, type_prefix, contract, callees=None, cls=None, label=None):
    fid = f"{src_rel}:{label or name}"
    try:
        docs = cppvc.clang_ast(src_rel, filt)
        node = cppvc.find_function(docs, name, type_prefix, cls)
        py, tr = cppvc.translate(node, contract)
    except pyvc.Unsupported as e:
        run.undecided_ob(f"{fid}/extraction", "cppvc", "clang-ast", str(e))
        return None
    text = ast.unparse(py)
    run.function(fid, text, dropped_float_statements=tr.dropped, bounds_obligations_from_dropped=tr.bounds)
    return verify_translated(run, fid, py, text, contract, callees)


def verify_translated(run, fid, py, text, contract, callees=None, vc_filter=None):
    import time

    from vf import smt

    rel, qual = fid.split(":", 1)
    try:
        fv = pyvc.FunctionVerifier(rel, qual, contract, SPEC, callees or {}, func=py, func_source=text)
        fv.used_lemmas = set()
        ctx = fv.run()
    except (pyvc.Unsupported, pyvc.ContractError, KeyError) as e:
        run.undecided_ob(f"{fid}/vcgen", "cppvc", "vcgen", f"{type(e).__name__}: {e}")
        return None
    if not ctx.vcs:
        run.broken_ob(f"{fid}/zero-obligation-guard", "no obligations generated")
        return None
    vcs = [vc for vc in ctx.vcs if vc_filter is None or vc_filter(vc)]
    results = smt.solve_many([(vc.name, pyvc.render(ctx, vc.hyps, vc.goal)) for vc in vcs], workers=16)
    out = {}
    for vc in vcs:
        r = results[vc.name]
        out[vc.name] = (vc, r)
    for l in fv.used_lemmas:
        run.trust(f"lemma {l} (Lean: {LEMMAS[l].get('lean', '?')})")
    covers = smt.solve_many([(n, pyvc.render(ctx, h, None)) for n, h in ctx.covers], workers=6, want_model=False, t1=10, t2=10)
    for n, r in covers.items():
        if r.verdict == "unsat":
            run.broken_ob(n, "vacuity guard: contradictory hypotheses")
        else:
            run.vacuity_covers += 1
    return out


def report(run, results, on_failed=None, on_unknown=None):
    """default reporting of translated-function VCs"""
    if results is None:
        return
    for name, (vc, r) in results.items():
        if r.verdict == "unsat":
            run.discharged(name, "cppvc", r.solver, r.seconds, sample={"kind": vc.kind, "goal": vc.goal[:160]})
        elif r.verdict == "sat":
            info = on_failed(vc, r) if on_failed else {}
            run.failed(name, "cppvc", r.solver, what=f"{vc.kind} (C++ line {vc.lineno}) is refuted: {vc.goal[:160]}",
                       counterexample={"model": r.model}, replay=info.get("replay", {"kind": "smt-model"}),
                       reproduced=info.get("reproduced"), observed=info.get("observed"), solver_output=r.output[:2000],
                       seconds=r.seconds)
        else:
            info = on_unknown(vc, r) if on_unknown else None
            if info and info.get("reproduced"):
                # the solver could not decide, but the kernels compiled from this tree give a wrong value on a concrete input
                run.failed(name, "cppvc", r.solver, what=f"{vc.kind} (C++ line {vc.lineno}): solver undecided ({r.verdict}); a bounded search on the "
                           f"kernels compiled from the tree found a failing input: {str(info.get('observed'))[:200]}",
                           counterexample=info.get("observed"), replay=info.get("replay", {"kind": "accuracy"}), reproduced=True,
                           observed=info.get("observed"), solver_output=r.output[:1000], seconds=r.seconds)
            else:
                run.undecided_ob(name, "cppvc", r.solver, f"solver answered {r.verdict}", r.seconds)


def check_binomial(run):
    """every instantiation of binomialCoeff that the kernels call"""
    done = 0
    for tp, contract, label in (("int (int, int)", BINOMIAL, "binomialCoeff<int>"), ("long (long, long)", BINOMIAL64, "binomialCoeff<int64_t>")):
        try:
            docs = cppvc.clang_ast("src/permanent.cpp", "binomialCoeff")
            cppvc.find_function(docs, "binomialCoeff", tp)
        except pyvc.Unsupported:
            continue
        res = verify_cpp(run, "src/permanent.cpp", "binomialCoeff", "binomialCoeff", tp, contract, label=label)
        report(run, res)
        done += 1
    if not done:
        run.undecided_ob("src/utils.hpp:binomialCoeff/extraction", "cppvc", "clang-ast", "no instantiation of binomialCoeff found")


# ------------------------------------------------------------------------------------------ kernels
GC_FIELDS = ["num_digits", "gray_code", "n_ary_limits", "counter_chain", "offset_max", "offset"]
GC_SEQ_FIELDS = ("gray_code", "n_ary_limits", "counter_chain")


def _gc_fields(tr, obj):
    return [tr.name(f"{obj}_{f}") for f in GC_FIELDS]


def _gc_store(obj, fields):
    return [ast.Name(id=f"{obj}_{f}", ctx=ast.Store()) for f in fields]


def _gc_ctor(tr, nm, init):
    """n_aryGrayCodeCounter gcode_counter(limits, n, initial_offset): a call of the constructor's VERIFIED contract
    (contracts/C04_gray.py) on the object's field variables <obj>_<field>; the fields are unspecified before it"""
    args = [tr.ex(a) for a in (init.get("inner") or [])]
    if len(args) != 3:
        raise pyvc.Unsupported("n_aryGrayCodeCounter constructor with != 3 arguments")
    garbage = [tr.call("__new_int_array", tr.const(0)) if f in GC_SEQ_FIELDS else tr.call("__uninit") for f in GC_FIELDS]
    tgt = ast.Tuple(elts=[ast.Name(id="_gc_r", ctx=ast.Store())] + _gc_store(nm, GC_FIELDS), ctx=ast.Store())
    return [ast.Assign(targets=[tgt], value=tr.call("GC_ctor", *args, *garbage))]


def _gc_set_offset_max(tr, n):
    callee = tr._strip(n["inner"][0])
    obj = tr.ex(callee["inner"][0]).id
    tgt = ast.Tuple(elts=[ast.Name(id="_gc_r", ctx=ast.Store())] + _gc_store(obj, ["offset_max"]), ctx=ast.Store())
    return [ast.Assign(targets=[tgt], value=tr.call("GC_set_offset_max", tr.ex(n["inner"][1]), *_gc_fields(tr, obj)))]


def _gc_get(tr, obj):
    return tr.name(obj.id + "_gray_code")


def _gc_next(tr, n):
    callee = tr._strip(n["inner"][0])
    obj = tr.ex(callee["inner"][0]).id
    outs = [tr.ex(a).id for a in n["inner"][1:]]
    S = ast.Store()
    tgt = ast.Tuple(elts=[ast.Name(id="gc_ret", ctx=S)] + [ast.Name(id=o, ctx=S) for o in outs]
                    + _gc_store(obj, ["gray_code", "counter_chain", "offset"]), ctx=S)
    call = tr.call("GC_next", *[tr.name(o) for o in outs], *_gc_fields(tr, obj))
    return [ast.Assign(targets=[tgt], value=call)], ast.Compare(left=tr.name("gc_ret"), ops=[ast.NotEq()], comparators=[tr.const(0)])


KERNEL_TRANSLATION = {
    "calls": {"Vector::sum": "Vector_sum", "binomialCoeff": "binomialCoeff", "hardware_concurrency": "hardware_concurrency",
              "omp_get_thread_num": "omp_get_thread_num", "omp_get_num_threads": "omp_get_num_threads"},
    "object_ctors": {"n_aryGrayCodeCounter": _gc_ctor},
    "stmt_calls": {"n_aryGrayCodeCounter::set_offset_max": _gc_set_offset_max},
    "ptr_calls": {"n_aryGrayCodeCounter::get": _gc_get},
    "cond_calls": {"n_aryGrayCodeCounter::next": _gc_next},
    "ignored_calls": ("uninitialized_copy_n", "ldexp"),
}


# ------------------------------------------------------------------------------------------ permanent_cpp
U64 = "0 <= {0} and {0} <= 1000000"

PREFIX = dict(
    params=[("A_rows", "Int"), ("A_cols", "Int"), ("rows", SEQ), ("cols", SEQ)], returns="None",
    requires=[U64.format("A_rows"), U64.format("A_cols"), "len(rows) == A_rows", "len(cols) == A_cols",
              "forall(lambda j: 0 <= rows[j] and rows[j] <= 46340, 0, len(rows))"],
    ensures=[
        # either nothing was split (all multiplicities are zero) ...
        "(forall(lambda j: old(rows)[j] == 0, 0, len(old(rows))) and len(rows) == len(old(rows)) and A_rows == old(A_rows)) or "
        # ... or one unit of the smallest non-zero row was split off as row 0
        "(len(rows) == len(old(rows)) + 1 and rows[0] == 1 and A_rows == old(A_rows) + 1 and "
        " forall(lambda j: 0 <= rows[j + 1] and rows[j + 1] <= old(rows)[j], 0, len(old(rows))))",
        "A_cols == old(A_cols)", "len(rows) == A_rows",
    ],
    loops={
        "0": dict(invariant=["0 <= i", "i <= len(rows)", "minelem >= 0", "0 <= min_idx",
                             "implies(minelem != 0, min_idx < len(rows) and rows[min_idx] == minelem)",
                             "implies(minelem == 0, forall(lambda j: rows[j] == 0, 0, i))"]),
        "1": dict(invariant=["0 <= i", "i <= len(rows)", "len(rows_) == len(rows) + 1", "rows_[0] == 1",
                             "forall(lambda j: rows_[j + 1] == rows[j], 0, i)"]),
        "2": dict(invariant=["0 <= j", "j <= A_cols"]),
        "3": dict(invariant=["0 <= i", "i <= A_rows"]),
        "3.0": dict(invariant=["0 <= j", "j <= A_cols"]),
    },
)


def translate_kernel(src_rel, name, type_prefix):
    docs = cppvc.clang_ast(src_rel, name)
    node = cppvc.find_function(docs, name, type_prefix)
    return cppvc.translate(node, KERNEL_TRANSLATION)


def _is_sum_rows(s):
    return isinstance(s, ast.Assign) and ast.unparse(s.targets[0]) == "sum_rows"


def check_kernel_prefix(run, src_rel="src/permanent.cpp", name="permanent_cpp", type_prefix="std::complex<double> ("):
    fid = f"{src_rel}:{name}<double>/row-splitting-prefix"
    try:
        py, tr = translate_kernel(src_rel, name, type_prefix)
        pre = cppvc.slice_function(py, None, _is_sum_rows, name=name + "_prefix", params=["A_rows", "A_cols", "rows", "cols"])
    except (pyvc.Unsupported, StopIteration) as e:
        run.undecided_ob(f"{fid}/extraction", "cppvc", "clang-ast", f"{type(e).__name__}: {e}")
        return
    run.function(fid, ast.unparse(pre), dropped_float_statements=tr.dropped)
    report(run, verify_translated(run, fid, pre, ast.unparse(pre), PREFIX, {}))


# -- spec functions of the kernels ---------------------------------------------------------------
SPEC.funs.update({
    "VSUMN": ([SEQ, "Int"], "Int"),     # sum_{j<n} v[j]
    "LIMR": ([SEQ, "Int"], "Int"),      # prod_{j<k} (rows[j+1] + 1)
    "LIML": ([SEQ, "Int"], "Int"),      # prod_{j<k} limits[j]
    "PRODC": ([SEQ, SEQ, "Int"], "Int"),  # prod_{j<k} C(rows[j+1], g[j])
    "PMAX": ([SEQ, "Int"], "Int"),      # prod_{j<k} C(rows[j+1], rows[j+1] // 2)
})
LEMMAS.update({
    "VSUMN_unfold": dict(params=[("v", SEQ), ("k", "Int")], lean="definition (recursive spec function)",
                         formula="VSUMN(v, k) == ite(k <= 0, 0, VSUMN(v, k - 1) + v[k - 1])"),
    "VSUMN_zero": dict(params=[("v", SEQ), ("n", "Int")], lean="ghost lemma C04_ghost.vsumn_zero (pyvc)",
                       formula="implies(0 <= n and forall(lambda j: v[j] == 0, 0, n), VSUMN(v, n) == 0)"),
    "LIMR_unfold": dict(params=[("r", SEQ), ("k", "Int")], lean="definition (recursive spec function)",
                        formula="LIMR(r, k) == ite(k <= 0, 1, LIMR(r, k - 1) * (r[k] + 1))"),
    "LIML_unfold": dict(params=[("l", SEQ), ("k", "Int")], lean="definition (recursive spec function)",
                        formula="LIML(l, k) == ite(k <= 0, 1, LIML(l, k - 1) * l[k - 1])"),
    "PRODC_unfold": dict(params=[("r", SEQ), ("g", SEQ), ("k", "Int")], lean="definition (recursive spec function)",
                         formula="PRODC(r, g, k) == ite(k <= 0, 1, PRODC(r, g, k - 1) * C(r[k], g[k - 1]))"),
    "PMAX_unfold": dict(params=[("r", SEQ), ("k", "Int")], lean="definition (recursive spec function)",
                        formula="PMAX(r, k) == ite(k <= 0, 1, PMAX(r, k - 1) * C(r[k], r[k] // 2))"),
    "C_le_middle": dict(params=[("n", "Int"), ("k", "Int")], lean="PiquassoLemmas.C_le_middle",
                        formula="implies(n >= 0, C(n, k) <= C(n, n // 2))"),
    "mul_le": dict(params=[("a", "Int"), ("b", "Int"), ("x", "Int"), ("y", "Int")], lean="PiquassoLemmas.mul_le",
                   formula="implies(0 <= a and a <= x and 0 <= b and b <= y, a * b <= x * y)"),
    "le_of_mul_le": dict(params=[("a", "Int"), ("b", "Int"), ("m", "Int")], lean="PiquassoLemmas.le_of_mul_le",
                         formula="implies(a >= 1 and b >= 0 and a * b <= m, b <= m)"),
    "mul_eq": dict(params=[("a", "Int"), ("b", "Int"), ("c", "Int")], lean="PiquassoLemmas.mul_eq",
                   formula="implies(a == b, a * c == b * c)"),
    "mul_cancel": dict(params=[("a", "Int"), ("b", "Int"), ("c", "Int")], lean="PiquassoLemmas.mul_cancel",
                       formula="implies(c > 0 and a * c == b * c, a == b)"),
    # ghost lemmas about the product spec functions (proved by pyvc itself: contracts/C04_ghost.py)
    "PRODC_le_PMAX": dict(params=[("r", SEQ), ("g", SEQ), ("k", "Int")], lean="ghost lemma C04_ghost.prodc_le_pmax (pyvc)",
                          formula="implies(k >= 0 and forall(lambda j: 0 <= r[j + 1], 0, k), 1 <= PMAX(r, k) and 0 <= PRODC(r, g, k) and PRODC(r, g, k) <= PMAX(r, k))"),
    "PRODC_update": dict(params=[("r", SEQ), ("g", SEQ), ("g2", SEQ), ("ci", "Int"), ("n", "Int")],
                         lean="ghost lemma C04_ghost.prodc_update (pyvc)",
                         formula="implies(0 <= ci and ci < n and forall(lambda j: implies(j != ci, g2[j] == g[j]), 0, n), "
                                 "PRODC(r, g2, n) * C(r[ci + 1], g[ci]) == PRODC(r, g, n) * C(r[ci + 1], g2[ci]))"),
})

INT32_MAX = 2147483647
GC_CALLEES = {
    # Vector<int>::sum(): contract verified on the real method (check_vector_sum)
    "Vector_sum": dict(params=[("v", SEQ)], returns="Int",
                       requires=[f"forall(lambda k: 0 - {INT32_MAX} <= VSUMN(v, k) and VSUMN(v, k) <= {INT32_MAX}, 0, len(v) + 1)"],
                       ensures=["result == VSUMN(v, len(v))"]),
    "hardware_concurrency": dict(params=[], returns="Int", ensures=["0 <= result", "result <= 4294967295"]),
    # OpenMP: which thread runs an iteration, and how many threads the runtime granted, are arbitrary (schedule-dependent)
    "omp_get_thread_num": dict(params=[], returns="Int", ensures=["0 <= result", "result <= 2147483647"]),
    "omp_get_num_threads": dict(params=[], returns="Int", ensures=["1 <= result", "result <= 2147483647"]),
    "binomialCoeff": dict(params=BINOMIAL["params"], returns="Int", requires=BINOMIAL["requires"], ensures=["result == C(n, k)"]),
    "binomialCoeff64": dict(params=BINOMIAL64["params"], returns="Int", requires=BINOMIAL64["requires"], ensures=["result == C(n, k)"]),
    # GC_ctor / GC_set_offset_max / GC_next: derived from the verified method contracts (contracts/C04_gray.py:KERNEL_CALLEES)
}

N_ = "(len(rows) - 1)"


def accumulator_max(py_text):
    """the machine range of `binomial_coeff`, read off the translated declaration"""
    if "binomial_coeff = __i32(" in py_text:
        return 2147483647, "int"
    if "binomial_coeff = __i64(" in py_text:
        return 9223372036854775807, "int64_t"
    raise pyvc.Unsupported("type of binomial_coeff not recognised")


def suffix_contract(bc_max):
    d = dict(SUFFIX)
    d["requires"] = [r.replace("{BC_MAX}", str(bc_max)) for r in SUFFIX["requires"]]
    d["ghost"] = {k: [g.replace("{BC_MAX}", str(bc_max)) for g in v] for k, v in SUFFIX["ghost"].items()}
    return d


SUFFIX = dict(
    params=[("A_rows", "Int"), ("A_cols", "Int"), ("rows", SEQ), ("cols", SEQ), ("RMAX", "Int")], returns="Int",
    raises={"CppException": "VSUMN(rows, len(rows)) != VSUMN(cols, len(cols))"},
    requires=[
        "1 <= A_rows and A_rows <= 1000001", U64.format("A_cols"), "len(rows) == A_rows", "len(cols) == A_cols",
        "forall(lambda j: 0 <= rows[j] and rows[j] <= RMAX, 0, len(rows))", "0 <= RMAX and RMAX <= 46340",
        "forall(lambda j: 0 <= cols[j] and cols[j] <= 2147483647, 0, len(cols))",
        # the multiplicity range in which the kernel's integer arithmetic is exact:
        f"forall(lambda k: 1 <= LIMR(rows, k) and LIMR(rows, k) <= {INT32_MAX}, 0, len(rows))",
        "forall(lambda k: 1 <= PMAX(rows, k) and PMAX(rows, k) * (RMAX + 1) <= {BC_MAX}, 0, len(rows))",
        f"len(rows) * (RMAX + 1) <= {INT32_MAX}",
        # the totals (and every partial sum) of the multiplicities fit an int: Vector<int>::sum() accumulates in int
        f"forall(lambda k: 0 <= VSUMN(rows, k) and VSUMN(rows, k) <= {INT32_MAX}, 0, len(rows) + 1)",
        f"forall(lambda k: 0 <= VSUMN(cols, k) and VSUMN(cols, k) <= {INT32_MAX}, 0, len(cols) + 1)",
    ],
    ensures=[],
    loops={
        "0": dict(invariant=["0 <= i", "i <= len(cols)"]),
        "0.0": dict(invariant=["0 <= j", "j <= cols[i]"]),
        "1": dict(invariant=["0 <= i", "i <= A_rows * A_cols"]),
        "2": dict(invariant=["0 <= i", "i <= n_ary_size", "len(n_ary_limits) == n_ary_size",
                             "forall(lambda j: n_ary_limits[j] == rows[j + 1] + 1, 0, i)"]),
        "3": dict(invariant=["1 <= i", "i <= n_ary_size", "idx_max == LIMR(rows, i)", "idx_max == LIML(n_ary_limits, i)", "idx_max >= 1",
                             "forall(lambda k: LIML(n_ary_limits, k) == LIMR(rows, k), 0, i + 1)"]),
        "4": dict(invariant=["0 <= job_idx", "job_idx <= concurrency"]),
        "4.0": dict(invariant=["0 <= i", "i <= n_ary_size", "binomial_coeff == PRODC(rows, gcode, i)", "binomial_coeff >= 0",
                               "minus_signs_all >= 0", "minus_signs_all <= i * RMAX", "len(gcode) == n_ary_size",
                               "forall(lambda j: 0 <= gcode[j] and gcode[j] <= rows[j + 1], 0, n_ary_size)"]),
        "4.0.0": dict(invariant=["0 <= j", "j <= len(cols)"]),
        "4.1": dict(invariant=["0 <= i", "i <= len(cols)"]),
        "4.1.0": dict(invariant=["0 <= j", "j <= cols[i]"]),
        "4.2": dict(invariant=["initial_offset + 1 <= i", "i <= offset_max + 1", "len(gcode_counter_gray_code) == n_ary_size",
                               "forall(lambda j: 0 <= gcode_counter_gray_code[j] and gcode_counter_gray_code[j] < gcode_counter_n_ary_limits[j], 0, n_ary_size)",
                               "binomial_coeff == PRODC(rows, gcode_counter_gray_code, n_ary_size)", "binomial_coeff >= 0",
                               "parity == 1 or parity == 0 - 1",
                               # the counter object satisfies its class invariant (opaque here; contracts/C04_gray.py)
                               "GCINV(gcode_counter_num_digits, gcode_counter_gray_code, gcode_counter_counter_chain, "
                               "gcode_counter_n_ary_limits, gcode_counter_offset, gcode_counter_offset_max)",
                               "gcode_counter_num_digits == n_ary_size", "len(gcode_counter_counter_chain) == n_ary_size",
                               "len(gcode_counter_n_ary_limits) == n_ary_size", "gcode_counter_offset_max <= 9223372036854775806",
                               "forall(lambda j: gcode_counter_n_ary_limits[j] == n_ary_limits[j], 0, n_ary_size)"]),
        "4.2.0": dict(invariant=["0 <= j", "j <= len(cols)"]),
        "4.2.0.0": dict(invariant=["0 <= k", "k <= cols[j]"]),
    },
    ghost={
        "loop[2].before": [],
        "loop[3].before": ["use('LIMR_unfold', rows, 0)", "use('LIMR_unfold', rows, 1)", "use('LIML_unfold', n_ary_limits, 0)",
                           "use('LIML_unfold', n_ary_limits, 1)"],
        "loop[3].start": ["use('LIMR_unfold', rows, i + 1)", "use('LIML_unfold', n_ary_limits, i + 1)"],
        # C11: every value of hardware_concurrency() must leave at least one job
        "loop[4].before": ["check(concurrency >= 1)"],
        "loop[4.0].before": [
            # tiling of [0, idx_max) by the job ranges (C11): adjacent, non-empty, first starts at 0, last ends at idx_max-1
            "check(work_batch >= 1)", "check(initial_offset == job_idx * work_batch)", "check(initial_offset <= offset_max)",
            "check(offset_max <= idx_max - 1)", "check(implies(job_idx == 0, initial_offset == 0))",
            "check(implies(job_idx < concurrency - 1, offset_max + 1 == (job_idx + 1) * work_batch))",
            "check(implies(job_idx == concurrency - 1, offset_max == idx_max - 1))",
            "use('PRODC_unfold', rows, gcode, 0)",
        ],
        "loop[4.0].start": ["use('PRODC_unfold', rows, gcode, i + 1)", "use('PRODC_le_PMAX', rows, gcode, i + 1)",
                            "use('PRODC_le_PMAX', rows, gcode, i)", "use('C_le_middle', rows[i + 1], gcode[i])",
                            "use('C_pos', rows[i + 1], gcode[i])", "use('C_out', rows[i + 1], gcode[i])",
                            "use('PMAX_unfold', rows, i + 1)", "use('mul_le', i + 1, RMAX, len(rows), RMAX + 1)",
                            "use('le_of_mul_le', PMAX(rows, i), C(rows[i + 1], rows[i + 1] // 2), {BC_MAX})"],
        "loop[4.2].before": ["use('PRODC_le_PMAX', rows, gcode_counter_gray_code, n_ary_size)"],
        "loop[4.2].start": ["use('PRODC_le_PMAX', rows, gcode_counter_gray_code, n_ary_size)", "let('gray_old', gcode_counter_gray_code)"],
    },
    ghost_after={
        "gc_ret, changed_index": [
            "use('PRODC_le_PMAX', rows, gcode_counter_gray_code, n_ary_size)",
            "use('PRODC_update', rows, gray_old, gcode_counter_gray_code, changed_index, n_ary_size)",
            "use('mul_le', binomial_coeff, prev_value, PMAX(rows, n_ary_size), RMAX + 1)",
            "use('mul_le', binomial_coeff, rows[changed_index + 1] - prev_value, PMAX(rows, n_ary_size), RMAX + 1)",
            # Pascal-row absorption: C(r, v+1) (v+1) = C(r, v) (r - v), at v = min(prev, value)
            "use('absorb', rows[changed_index + 1], min(prev_value, value))",
            "use('C_pos', rows[changed_index + 1], prev_value)", "use('C_pos', rows[changed_index + 1], value)",
            "let('r_', rows[changed_index + 1])", "let('P1', binomial_coeff)", "let('P2', PRODC(rows, gcode_counter_gray_code, n_ary_size))",
            "let('c_p', C(r_, prev_value))", "let('c_v', C(r_, value))",
            "check(implies(gc_ret == 0, P2 * c_p == P1 * c_v))",
            "check(implies(gc_ret == 0, implies(value == prev_value - 1, c_p * prev_value == c_v * (r_ - value))))",
            "check(implies(gc_ret == 0, implies(value == prev_value + 1, c_v * value == c_p * (r_ - prev_value))))",
            "use('mul_eq', c_p * prev_value, c_v * (r_ - value), P2)", "use('mul_eq', P2 * c_p, P1 * c_v, prev_value)",
            "use('mul_eq', c_v * value, c_p * (r_ - prev_value), P1)", "use('mul_eq', P2 * c_p, P1 * c_v, value)",
            "check(implies(gc_ret == 0, implies(value == prev_value - 1, (P2 * (r_ - value)) * c_v == (P1 * prev_value) * c_v)))",
            "check(implies(gc_ret == 0, implies(value == prev_value + 1, (P2 * value) * c_p == (P1 * (r_ - prev_value)) * c_p)))",
            # value = prev - 1:  P2 (r - value) = P1 prev   (cancel C(r, value) from update x absorb)
            "use('mul_cancel', P2 * (r_ - value), P1 * prev_value, C(r_, value))",
            "use('div_exact', P1 * prev_value, r_ - value, P2)",
            # value = prev + 1:  P2 value = P1 (r - prev)   (cancel C(r, prev))
            "use('mul_cancel', P2 * value, P1 * (r_ - prev_value), C(r_, prev_value))",
            "use('div_exact', P1 * (r_ - prev_value), value, P2)",
            "check(implies(gc_ret == 0, implies(value == prev_value - 1, P2 * (r_ - value) == P1 * prev_value)))",
            "check(implies(gc_ret == 0, implies(value == prev_value + 1, P2 * value == P1 * (r_ - prev_value))))",
        ],
    },
)


def _after_gc_next(st_label):
    return st_label


def check_kernel_suffix(run, src_rel="src/permanent.cpp", name="permanent_cpp", type_prefix="std::complex<double> (", vc_filter=None):
    fid = f"{src_rel}:{name}<double>/kernel"
    try:
        py, tr = translate_kernel(src_rel, name, type_prefix)
        suf = cppvc.slice_function(py, _is_sum_rows, None, name=name + "_kernel", params=["A_rows", "A_cols", "rows", "cols"])
    except (pyvc.Unsupported, StopIteration) as e:
        run.undecided_ob(f"{fid}/extraction", "cppvc", "clang-ast", f"{type(e).__name__}: {e}")
        return None
    text = ast.unparse(suf)
    try:
        bc_max, bc_type = accumulator_max(text)
    except pyvc.Unsupported as e:
        run.undecided_ob(f"{fid}/extraction", "cppvc", "clang-ast", str(e))
        return None
    run.function(fid, text, dropped_float_statements=tr.dropped, bounds_obligations_from_dropped=tr.bounds,
                 accumulator_type=bc_type)
    run.notes.append(f"{fid}: binomial accumulator is `{bc_type}`; exactness pre-condition PMAX(rows) * (RMAX + 1) <= {bc_max}")
    from contracts import C04_gray
    callees = dict(GC_CALLEES)
    callees.update(C04_gray.KERNEL_CALLEES)
    if "long (long" in getattr(tr, "call_types", {}).get("binomialCoeff", ""):
        callees["binomialCoeff"] = GC_CALLEES["binomialCoeff64"]
    return verify_translated(run, fid, suf, text, suffix_contract(bc_max), callees, vc_filter=vc_filter), bc_max


# ------------------------------------------------------------------------------------------ permanent_laplace_cpp
def _is_mtx2(s):
    return isinstance(s, ast.Assign) and ast.unparse(s.targets[0]) == "mtx2_rows"


EARLY = ("(old(A_rows) == 0 or old(A_cols) == 0 or VSUMN(old(rows), len(old(rows))) == 0 or VSUMN(old(cols), len(old(cols))) == 0)")
LAPLACE_PREFIX = dict(
    PREFIX,       # same row-splitting code and loop structure as permanent_cpp, preceded by the sums and the early return
    requires=PREFIX["requires"] + [
        f"forall(lambda k: 0 <= VSUMN(rows, k) and VSUMN(rows, k) <= {INT32_MAX}, 0, len(rows) + 1)",
        f"forall(lambda k: 0 <= VSUMN(cols, k) and VSUMN(cols, k) <= {INT32_MAX}, 0, len(cols) + 1)"],
    ensures=[
        # nothing changed (early return: empty matrix or no particles) ...
        "(len(rows) == len(old(rows)) and A_rows == old(A_rows) and forall(lambda j: rows[j] == old(rows)[j], 0, len(rows))) or "
        # ... or one unit of the smallest non-zero row was split off as row 0
        "(len(rows) == len(old(rows)) + 1 and rows[0] == 1 and A_rows == old(A_rows) + 1 and "
        " forall(lambda j: 0 <= rows[j + 1] and rows[j + 1] <= old(rows)[j], 0, len(old(rows))))",
        "A_cols == old(A_cols)", "len(rows) == A_rows",
        # the kernel proper is entered only with at least two rows (its n_ary_limits[0] exists)
        f"implies(not {EARLY}, A_rows >= 2 and rows[0] == 1)",
    ],
    ghost={"loop[1].before": ["use('VSUMN_zero', rows, len(rows))"], "exit": ["use('VSUMN_zero', old(rows), len(old(rows)))"]},
)


def _renumber(d, mapping):
    """loop keys / ghost points of SUFFIX re-keyed for the loop ordinals of the Laplace kernel"""
    out = {}
    for k, v in d.items():
        for a, b in mapping:
            if k == a or k.startswith(a + "."):
                out[b + k[len(a):]] = v
                break
            if k.startswith(f"loop[{a}]") or k.startswith(f"loop[{a}."):
                out["loop[" + b + k[len("loop[" + a):]] = v
                break
    return out


_LAP_MAP = [("4.2", "3.3"), ("4.0", "3.0"), ("4", "3"), ("3", "2"), ("2", "1"), ("1", "0")]
_BOUND = lambda v, hi: dict(invariant=[f"0 <= {v}", f"{v} <= {hi}"])
LAPLACE = dict(
    params=SUFFIX["params"], returns="Int",
    requires=["2 <= A_rows and A_rows <= 1000001"] + list(SUFFIX["requires"][1:]),
    ensures=[],
    loops=dict(
        _renumber({k: v for k, v in SUFFIX["loops"].items() if k in ("1", "2", "3", "4", "4.0", "4.0.0", "4.2")}, _LAP_MAP),
        **{
            "3.1": _BOUND("l", "len(cols)"), "3.1.0": _BOUND("i", "len(cols)"),
            "3.1.0.0": dict(invariant=["0 <= j", "j <= cols[i]"]),
            "3.2": _BOUND("i", "len(cols)"),
            "3.3.0": _BOUND("j", "len(cols)"),
            "3.3.1": _BOUND("l", "len(cols)"), "3.3.1.0": _BOUND("k", "len(cols)"),
            "3.3.1.0.0": dict(invariant=["0 <= j", "j <= cols[k]"]),
            "3.3.2": _BOUND("k", "len(cols)"),
            "4": _BOUND("i", "len(cols)"), "4.0": _BOUND("job_idx", "concurrency"),
        }),
    ghost=dict(_renumber({k: v for k, v in SUFFIX["ghost"].items() if not k.startswith("loop[2]")}, _LAP_MAP)),
    ghost_after=SUFFIX["ghost_after"],
)
# thread_results has `concurrency` rows of len(cols) entries: row job_idx is in bounds
LAPLACE["ghost"]["loop[3.2].before"] = ["use('mul_le', job_idx + 1, len(cols), concurrency, len(cols))",
                                        # C11: parallel iterations write disjoint rows (row index = job index, for every schedule)
                                        "check(job_idx_uint == job_idx)"]
LAPLACE["ghost"]["loop[3.3.2].before"] = ["use('mul_le', job_idx + 1, len(cols), concurrency, len(cols))"]
LAPLACE["ghost"]["loop[4.0].start"] = ["use('mul_le', job_idx + 1, len(cols), concurrency, len(cols))"]
LAPLACE["loops"]["3.3"] = dict(invariant=SUFFIX["loops"]["4.2"]["invariant"] + ["job_idx_uint == job_idx"])


def laplace_contract(bc_max):
    d = dict(LAPLACE)
    d["requires"] = [r.replace("{BC_MAX}", str(bc_max)) for r in LAPLACE["requires"]]
    d["ghost"] = {k: [g.replace("{BC_MAX}", str(bc_max)) for g in v] for k, v in LAPLACE["ghost"].items()}
    return d


def check_laplace(run, vc_filter=None, src_rel="src/permanent_laplace.cpp", name="permanent_laplace_cpp",
                  type_prefix="Vector<std::complex<double>> ("):
    """permanent_laplace_cpp<double>: row-splitting prefix and kernel, same contracts as permanent_cpp"""
    from contracts import C04_gray
    fid_p = f"{src_rel}:{name}<double>/row-splitting-prefix"
    fid_k = f"{src_rel}:{name}<double>/kernel"
    try:
        py, tr = translate_kernel(src_rel, name, type_prefix)
        pre = cppvc.slice_function(py, None, _is_mtx2, name=name + "_prefix", params=["A_rows", "A_cols", "rows", "cols"])
        suf = cppvc.slice_function(py, _is_mtx2, None, name=name + "_kernel", params=["A_rows", "A_cols", "rows", "cols"])
        text = ast.unparse(suf)
        bc_max, bc_type = accumulator_max(text)
    except (pyvc.Unsupported, StopIteration) as e:
        run.undecided_ob(f"{fid_k}/extraction", "cppvc", "clang-ast", f"{type(e).__name__}: {e}")
        return None
    callees = dict(GC_CALLEES)
    callees.update(C04_gray.KERNEL_CALLEES)
    if "long (long" in getattr(tr, "call_types", {}).get("binomialCoeff", ""):
        callees["binomialCoeff"] = GC_CALLEES["binomialCoeff64"]
    out = {}
    if vc_filter is None:
        run.function(fid_p, ast.unparse(pre), dropped_float_statements=tr.dropped)
        out.update(verify_translated(run, fid_p, pre, ast.unparse(pre), LAPLACE_PREFIX, callees) or {})
    run.function(fid_k, text, dropped_float_statements=tr.dropped, bounds_obligations_from_dropped=tr.bounds, accumulator_type=bc_type)
    res = verify_translated(run, fid_k, suf, text, laplace_contract(bc_max), callees, vc_filter=vc_filter)
    if res is None:
        return None
    out.update(res)
    return out, bc_max


# ------------------------------------------------------------------------------------------ Vector<int>::sum
VECTOR_SUM = dict(
    params=[("f_data", SEQ), ("f_length", "Int")], returns="Int",
    requires=["len(f_data) == f_length", "f_length <= 18446744073709551615",      # type invariant of the size_t field
              f"forall(lambda k: 0 - {INT32_MAX} <= VSUMN(f_data, k) and VSUMN(f_data, k) <= {INT32_MAX}, 0, f_length + 1)"],
    ensures=["result == VSUMN(f_data, f_length)"],
    loops={"0": dict(invariant=["0 <= i", "i <= f_length", "result == VSUMN(f_data, i)"])},
    ghost={"loop[0].before": ["use('VSUMN_unfold', f_data, 0)"], "loop[0].start": ["use('VSUMN_unfold', f_data, i + 1)"]},
)


def check_vector_sum(run):
    fid = "src/matrix.hpp:Vector<int>::sum"
    try:
        docs = cppvc.clang_ast("src/permanent.cpp", "Vector")
        node = cppvc.find_function(docs, "sum", "int (", "Vector")
        py, tr = cppvc.translate(node, {})
    except (pyvc.Unsupported, StopIteration) as e:
        run.undecided_ob(f"{fid}/extraction", "cppvc", "clang-ast", f"{type(e).__name__}: {e}")
        return
    py.args.args = [ast.arg(arg="f_data"), ast.arg(arg="f_length")]
    ast.fix_missing_locations(py)
    text = ast.unparse(py)
    run.function(fid, text)
    report(run, verify_translated(run, fid, py, text, VECTOR_SUM, {}))
