"""C08 - every reachable state is physical (DESIGN 5/C08).

Proved (symtrace + Lean):
  a) every built-in linear gate / displacement step of the Gaussian simulator preserves the
     representation invariant C = C^dagger, G = G^T, and the xxpp covariance stays real symmetric -
     for ALL parameters, states, hbar, every ordered mode tuple at d = 3;
  b) every built-in gate's xxpp matrix S satisfies S Omega S^T = Omega (symplectic form preserved);
     with C07 (sigma' = S sigma S^T) and the Lean lemma psd_congr (M >= 0 => S M S^dagger >= 0) the
     uncertainty relation sigma + i hbar Omega >= 0 is preserved by every built-in linear gate and by
     displacement, for all parameters and all hbar > 0; vacuum satisfies it (sigma = hbar I).
Bounded (rtc): validate() / norm / probability / purity contracts installed as a post-condition
  of every simulation step of every simulator on enumerated programs.
"""
from __future__ import annotations

import itertools
import json

import numpy as np

from contracts import C07
from vf import symtrace as st

O = st.to_obj


def ob_gate_keeps_invariant(cls, d, modes):
    def build(env):
        from piquasso._simulators.gaussian import simulation_steps as steps
        from piquasso.instructions import gates

        state = env.gaussian_state(d)
        g = C07.make_gate(cls, env).on_modes(*modes)
        if isinstance(g, gates._ActiveLinearGate):
            steps.linear(state, g, shots=1)
        else:
            steps.passive_linear(state, g, shots=1)
        C, G = O(state._C), O(state._G)
        sigma = O(state.xxpp_covariance_matrix)
        return [C, G, sigma, O(sigma.view(st.SymArray).imag) if env.symbolic else np.imag(np.asarray(sigma, dtype=complex))], [
            C07.env_conj(C).T if env.symbolic else np.conj(np.asarray(C, dtype=complex)).T, G.T, sigma.T,
            0 * sigma]

    return build


def ob_displacement_keeps_invariant(d, mode):
    def build(env):
        import piquasso as pq
        from piquasso._simulators.gaussian import simulation_steps as steps

        state = env.gaussian_state(d)
        C0, G0 = O(state._C).copy(), O(state._G).copy()
        steps.displacement(state, pq.Displacement(r=env.real("d.r"), phi=env.angle("d.phi")).on_modes(mode), shots=1)
        return [O(state._C), O(state._G)], [C0, G0]

    return build


def ob_vacuum(d):
    def build(env):
        import piquasso as pq
        from piquasso._simulators.gaussian import simulation_steps as steps

        state = env.gaussian_state(d)
        steps.vacuum(state, pq.Vacuum(), shots=1)
        sigma = O(state.xxpp_covariance_matrix)
        return [sigma, O(state.xxpp_mean_vector)], [env.hbar * np.identity(2 * d, dtype=object), 0 * O(state.xxpp_mean_vector)]

    return build


def ob_symplectic_form(cls):
    """S Omega S^T = Omega for the xxpp matrix of the gate (d = arity)"""

    def build(env):
        g = C07.make_gate(cls, env)
        Pb, Ab = C07.blocks(g, env)
        n = Pb.shape[0]
        S = C07.xxpp_symplectic(env, n, tuple(range(n)), Pb, Ab)
        I, Z = np.identity(n, dtype=object), np.zeros((n, n), dtype=object)
        Om = st.exact(env, np.block([[Z, I], [-I, Z]]))
        return [S @ Om @ S.T, O(st.exact(env, S).imag) if env.symbolic else np.imag(np.asarray(S, dtype=complex))], [Om, 0 * O(S)]

    return build


def ob_channel(d, modes):
    """deterministic_gaussian_channel: sigma' = E_X sigma E_X^T + hbar E_Y and mu' = E_X mu (as documented), for ALL real
    X, symmetric Y, states and hbar; in particular sigma' stays symmetric"""

    def build(env):
        from types import SimpleNamespace

        from piquasso._simulators.gaussian import simulation_steps as steps

        state = env.gaussian_state(d)
        k = len(modes)
        X = O(env.rmatrix("ch.X", 2 * k))
        Y = O(env.rsymmetric("ch.Y", 2 * k))
        if not env.symbolic:        # the replay hands the step ordinary float arrays, as a user would
            X, Y = np.real(np.asarray(X, dtype=complex)), np.real(np.asarray(Y, dtype=complex))
        ins = SimpleNamespace(modes=tuple(modes), _get_all_params=lambda connector: {"X": X, "Y": Y})
        mean0 = O(state.xpxp_mean_vector).copy()
        cov0 = O(state.xpxp_covariance_matrix).copy()
        with st.patched_np(steps, env):
            steps.deterministic_gaussian_channel(state, ins, shots=1)
        idx = [i for m in modes for i in (2 * m, 2 * m + 1)]
        EX = np.identity(2 * d, dtype=object)
        EY = np.zeros((2 * d, 2 * d), dtype=object)
        for a, ia in enumerate(idx):
            for b, ib in enumerate(idx):
                EX[ia, ib] = X[a, b]
                EY[ia, ib] = Y[a, b] * env.hbar
        cov1 = O(state.xpxp_covariance_matrix)
        C, G = O(state._C), O(state._G)
        return [cov1, O(state.xpxp_mean_vector), cov1, C, G], [
            EX @ cov0 @ EX.T + EY, EX @ mean0, cov1.T,
            C07.env_conj(C).T if env.symbolic else np.conj(np.asarray(C, dtype=complex)).T, G.T]

    return build


def obligations(tier):
    obs = {}
    classes = [c for c in C07.gate_classes() if c.__name__ not in C07.MATRIX_GATES and c.NUMBER_OF_MODES]
    d = 3
    for cls in classes:
        obs[f"C08/gaussian/symplectic-form-preserved/{cls.__name__}"] = ob_symplectic_form(cls)
        tuples = list(itertools.permutations(range(d), cls.NUMBER_OF_MODES))
        if tier == "quick":
            tuples = tuples[:1] + tuples[-2:]
        for modes in tuples:
            obs[f"C08/gaussian/invariant-C=C+,G=GT,sigma-real-symmetric/{cls.__name__}/modes=({','.join(map(str, modes))})"] = \
                ob_gate_keeps_invariant(cls, d, modes)
    for dd, modes in ((2, (0,)), (2, (1,)), (2, (1, 0)), (3, (2, 0))) if tier == "quick" else (
            [(2, m) for m in ((0,), (1,), (0, 1), (1, 0))] + [(3, m) for m in itertools.permutations(range(3), 1)]
            + [(3, m) for m in itertools.permutations(range(3), 2)]):
        obs[f"C08/gaussian/channel=X.sigma.XT+Y,symmetric/d={dd}/modes=({','.join(map(str, modes))})"] = ob_channel(dd, modes)
    for mode in range(2):
        obs[f"C08/gaussian/displacement-leaves-C,G/mode={mode}"] = ob_displacement_keeps_invariant(2, mode)
    for dd in (1, 2, 3):
        obs[f"C08/gaussian/vacuum=hbar*I/d={dd}"] = ob_vacuum(dd)
    return obs


# ---------------------------------------------------------------------------------- bounded
class Broken(Exception):
    pass


def check_state(pq, state, label, number_conserving_norm=None, strict=True):
    if state is None:
        return
    name = type(state).__name__
    if strict or name == "GaussianState":
        # (active gates on a truncated Fock space lose norm by truncation: validate() insists on norm 1,
        #  the property only on norm <= 1, which is checked below)
        try:
            state.validate()
        except Exception as e:
            raise Broken(f"{label}: validate() raised {type(e).__name__}: {e}"[:200])
    if hasattr(state, "norm"):
        n = float(np.real(state.norm))
        if n > 1 + 1e-8 or n < -1e-12:
            raise Broken(f"{label}: norm {n} outside [0,1]")
        if number_conserving_norm is not None and abs(n - number_conserving_norm) > 1e-9:
            raise Broken(f"{label}: norm changed from {number_conserving_norm} to {n} by a number-conserving gate")
    try:
        probs = np.asarray(state.fock_probabilities, dtype=float)
        if probs.size and (probs.min() < -1e-9 or probs.max() > 1 + 1e-9):
            raise Broken(f"{label}: a probability outside [0,1]: min {probs.min()}, max {probs.max()}")
    except Broken:
        raise
    except Exception:
        pass
    if hasattr(state, "get_purity") and name == "GaussianState":
        p = float(state.get_purity())
        if not (0 < p <= 1 + 1e-8):
            raise Broken(f"{label}: purity {p} outside (0,1]")
    if name == "GaussianState":
        cov = np.asarray(state.xxpp_covariance_matrix)
        if np.max(np.abs(np.imag(cov))) > 1e-12 or np.max(np.abs(cov - cov.T)) > 1e-9:
            raise Broken(f"{label}: covariance not real symmetric")


def programs(pq, np_, rng, hbar):
    U = np_.array([[0.6, 0.8], [-0.8, 0.6]], dtype=complex)
    gauss_gates = [pq.Squeezing(r=0.3, phi=0.4).on_modes(1), pq.Beamsplitter(theta=0.7, phi=0.2).on_modes(2, 0),
                   pq.Squeezing2(r=0.25, phi=1.0).on_modes(0, 1), pq.QuadraticPhase(s=0.3).on_modes(2),
                   pq.ControlledX(s=0.2).on_modes(1, 2), pq.ControlledZ(s=0.3).on_modes(2, 0), pq.Displacement(r=0.4, phi=0.3).on_modes(0),
                   pq.Interferometer(U).on_modes(1, 0), pq.MachZehnder(int_=0.3, ext=0.9).on_modes(0, 2), pq.Fourier().on_modes(1),
                   pq.Phaseshifter(phi=0.6).on_modes(2), pq.Beamsplitter5050().on_modes(1, 2),
                   pq.PositionDisplacement(x=0.2).on_modes(1), pq.MomentumDisplacement(p=-0.3).on_modes(2)]
    yield "GaussianSimulator", (lambda cut: pq.GaussianSimulator(d=3, config=pq.Config(hbar=hbar, cutoff=cut))), [pq.Vacuum()] + gauss_gates, False
    fock_gates = [pq.Beamsplitter(theta=0.7, phi=0.2).on_modes(2, 0), pq.Phaseshifter(phi=0.6).on_modes(1), pq.Kerr(xi=0.3).on_modes(0),
                  pq.CrossKerr(xi=0.2).on_modes(0, 1), pq.Interferometer(U).on_modes(1, 2), pq.MachZehnder(int_=0.3, ext=0.9).on_modes(0, 2),
                  pq.Fourier().on_modes(1), pq.Beamsplitter5050().on_modes(0, 1)]
    yield "PureFockSimulator", (lambda cut: pq.PureFockSimulator(d=3, config=pq.Config(hbar=hbar, cutoff=cut))), \
        [pq.StateVector([1, 1, 0]) * np_.sqrt(0.5), pq.StateVector([0, 2, 0]) * np_.sqrt(0.5)] + fock_gates, True
    yield "FockSimulator", (lambda cut: pq.FockSimulator(d=3, config=pq.Config(hbar=hbar, cutoff=cut))), \
        [pq.DensityMatrix(ket=(1, 1, 0), bra=(1, 1, 0)) * 0.5, pq.DensityMatrix(ket=(0, 2, 0), bra=(0, 2, 0)) * 0.5] + fock_gates, True
    yield "PureFockSimulator(active)", (lambda cut: pq.PureFockSimulator(d=2, config=pq.Config(hbar=hbar, cutoff=cut))), \
        [pq.Vacuum(), pq.Squeezing(r=0.1).on_modes(0), pq.Displacement(r=0.1).on_modes(1), pq.Beamsplitter(theta=0.5).on_modes(0, 1)], False
    # complex coherences between different photon numbers of the attenuated mode, then loss (density matrix must stay Hermitian)
    amp = {(0, 1): np_.sqrt(1 / 3), (1, 1): 1j * np_.sqrt(1 / 3), (2, 0): np_.exp(0.7j) * np_.sqrt(1 / 3)}
    rho = [pq.DensityMatrix(ket=k, bra=b) * (amp[k] * np_.conj(amp[b])) for k in amp for b in amp]
    yield "FockSimulator(loss, complex coherences)", (lambda cut: pq.FockSimulator(d=2, config=pq.Config(hbar=hbar, cutoff=max(cut, 3)))), \
        rho + [pq.Attenuator(theta=0.6).on_modes(0), pq.Phaseshifter(phi=0.4).on_modes(1), pq.Attenuator(theta=0.3).on_modes(1)], True
    # photon-number measurement / post-selection on NON-ASCENDING mode tuples of a state that is not symmetric under the exchange;
    # shots=None keeps every branch, each of which must be a normalised physical state
    psi = [pq.StateVector([1, 0, 0]) * np_.sqrt(0.2), pq.StateVector([0, 0, 1]) * (1j * np_.sqrt(0.5)), pq.StateVector([0, 1, 1]) * np_.sqrt(0.3)]
    for modes in ((2, 0), (1, 0), (2, 0, 1), (0, 2)):
        yield f"PureFockSimulator(measure {modes})", (lambda cut: pq.PureFockSimulator(d=3, config=pq.Config(hbar=hbar, cutoff=max(cut, 3)))), \
            psi + [pq.Beamsplitter(theta=0.4, phi=0.3).on_modes(0, 1), pq.ParticleNumberMeasurement().on_modes(*modes)], "shots=None"
    mixed = [pq.DensityMatrix(ket=k, bra=b) * (c1 * np_.conj(c2))
             for k, c1 in (((1, 0, 0), np_.sqrt(0.2)), ((0, 0, 1), 1j * np_.sqrt(0.5)), ((0, 1, 1), np_.sqrt(0.3)))
             for b, c2 in (((1, 0, 0), np_.sqrt(0.2)), ((0, 0, 1), 1j * np_.sqrt(0.5)), ((0, 1, 1), np_.sqrt(0.3)))]
    for modes in ((2, 0), (2, 0, 1)):
        yield f"FockSimulator(measure {modes})", (lambda cut: pq.FockSimulator(d=3, config=pq.Config(hbar=hbar, cutoff=max(cut, 3)))), \
            mixed + [pq.ParticleNumberMeasurement().on_modes(*modes)], "shots=None"
    yield "PureFockSimulator(postselect (2, 0))", (lambda cut: pq.PureFockSimulator(d=3, config=pq.Config(hbar=hbar, cutoff=max(cut, 3)))), \
        psi + [pq.PostSelectPhotons(photon_counts=(1, 0)).on_modes(2, 0)], "postselect"


def bounded(run):
    import piquasso as pq
    from piquasso.api.simulator import Simulator

    real = Simulator._apply_instruction_to_branches
    fails = []
    ctx = {"label": "", "conserving": False}
    calls = {"n": 0}

    def wrapped(self, branches, instruction, shots):
        norms = [float(np.real(b.state.norm)) if (b.state is not None and hasattr(b.state, "norm")) else None for b in branches]
        out = real(self, branches, instruction, shots)
        calls["n"] += 1
        if isinstance(instruction, pq.Preparation):
            return out      # a superposition is assembled by several preparations: intermediate states are partial
        for k, b in enumerate(out):
            keep = norms[0] if (ctx["conserving"] and len(out) == len(branches) == 1 and not isinstance(instruction, pq.Preparation)) else None
            check_state(pq, b.state, f"{ctx['label']} after {type(instruction).__name__}{instruction.modes}", keep,
                        strict=ctx["conserving"])
        return out

    Simulator._apply_instruction_to_branches = wrapped
    ev, distinct = 0, set()
    try:
        rng = np.random.default_rng(run.seed + 8)
        hbars = (0.5, 2.0) if run.tier == "quick" else (0.5, 1.0, 2.0, 3.7)
        cutoffs = (3, 5) if run.tier == "quick" else (3, 4, 5, 6)
        for hbar in hbars:
            for simname, mk, ins, conserving in programs(pq, np, rng, hbar):
                for cut in cutoffs:
                    ctx["label"] = f"{simname} hbar={hbar} cutoff={cut}"
                    ctx["conserving"] = conserving is True
                    ctx["mode"] = conserving if isinstance(conserving, str) else None
                    try:
                        res = mk(cut).execute_instructions([i.copy() for i in ins], shots=None if conserving == "shots=None" else 1)
                        if conserving == "shots=None":
                            # every branch of an exact run is a normalised physical state and the weights sum to one
                            w = 0.0
                            for b in res.branches:
                                w += float(b.frequency)
                                if b.state is None:      # every mode was measured
                                    continue
                                nrm = float(np.real(b.state.norm))
                                if abs(nrm - 1.0) > 1e-8:
                                    raise Broken(f"{ctx['label']}: post-measurement branch {b.outcome} has norm {nrm}")
                                b.state.validate()
                            if abs(w - 1.0) > 1e-8:
                                raise Broken(f"{ctx['label']}: branch weights sum to {w}")
                        ev += 1
                        distinct.add((simname, hbar, cut))
                    except Broken as e:
                        fails.append(str(e))
                    except Exception as e:
                        fails.append(f"{ctx['label']}: raised {type(e).__name__}: {e}"[:200])
    finally:
        Simulator._apply_instruction_to_branches = real
    if calls["n"] == 0:
        run.broken_ob("C08/bounded/wrapper", "run-time contract wrapper never evaluated")
    if fails:
        run.failed("C08/bounded/state-physical-after-every-step", "rtc", "run-time-contract",
                   what=f"{len(fails)} violation(s); first: {fails[0]}", counterexample={"violations": fails[:8]},
                   replay={"kind": "bounded"}, reproduced=True)
    run.bounded_result("C08/bounded/validate()+norm+probabilities+purity-after-every-step",
                       domain="Gaussian (14 gates), pure Fock, general Fock programs; contract installed on the real "
                              "Simulator._apply_instruction_to_branches", bound=f"hbar in {hbars}, cutoffs {cutoffs}, d<=3",
                       evaluations=ev, distinct=len(distinct), failures=len(fails), note=f"wrapper evaluations: {calls['n']}")


def check(run):
    obs = obligations(run.tier)
    st.discharge(run, obs, functions=["piquasso/_simulators/gaussian/simulation_steps.py:linear",
                                      "piquasso/_simulators/gaussian/simulation_steps.py:passive_linear",
                                      "piquasso/_simulators/gaussian/simulation_steps.py:displacement",
                                      "piquasso/_simulators/gaussian/simulation_steps.py:vacuum",
                                      "piquasso/_simulators/gaussian/simulation_steps.py:deterministic_gaussian_channel"])
    try:
        from contracts import C06_int
        from vf import lean
        from vf.pyvc import SpecEnv

        lean.check_lemmas(run, SpecEnv(lemmas={"psd_congr": {"lean": "PiquassoLemmas.psd_congr"}}))
    except ImportError:
        pass
    bounded(run)
    run.trust("vf/sympoly.py normal form")
    run.assume("uncertainty relation for all sequences: induction over the program with sigma' = S sigma S^T (C07), "
               "S Omega S^T = Omega (here) and psd_congr (Lean) as the step, vacuum (sigma = hbar I) as the base; the "
               "composition of these three contracts is a stated argument, not mechanised")
    run.assume("Fock density matrices, channels, measurements, fermionic states: floats + linalg, bounded stand-in only")


def replay(path):
    with open(path) as f:
        rep = json.load(f)
    name = rep["obligation"]
    obs = obligations("thorough")
    if name in obs:
        r, seed, values = st.run_numeric(obs[name])
        print(f"replay {name}: max |lhs-rhs| = {r:.3e}")
        return 1 if r > 1e-9 else 0
    from vf.common import Run

    r = Run("C08", "quick", 0)
    bounded(r)
    return 1 if r.violations else 0
