"""C20 - condition / parameter expressions are safe and mean what Python means (DESIGN 5/C20).

Three groups of obligations, all regenerated from /repo's piquasso/core/_expressions.py:

 T  tables: the operator tables and the whitelist, read from the module's AST, equal the
    specification tables derived from the property statement and the Python language reference.
 V  validation: `_validate` is one loop over ast.walk(tree) whose body only raises; the accept
    predicate of ONE node is decided exhaustively over every node class of the `ast` module,
    every constant type the parser can produce and the two cases of a Name; `__init__` reaches no
    evaluating function.  Together: accepted(tree) <=> every node is whitelisted.
 E  evaluation: for every expression template of the supported grammar (leaves x[i] bound to
    *symbolic* values, literals concrete) and every truth assignment to the truthiness queries,
    the real Expression(src)(x) returns the same symbolic term, after the same sequence of
    truthiness queries, as CPython's own evaluation of the same source - i.e. the same operator
    applied to the same operands in the same order with the same short-circuits, for ALL outcome
    values.  Templates are enumerated to a depth bound (the property's own quantifier is bounded
    in depth); values are unbounded symbols.
"""
from __future__ import annotations

import ast
import itertools
import json
import os
import time

from vf.common import REPO

REL = "piquasso/core/_expressions.py"

SPEC_BINOPS = {"Add": "add", "Sub": "sub", "Mult": "mul", "Div": "truediv", "Mod": "mod", "Pow": "pow", "BitXor": "xor"}
SPEC_UNARYOPS = {"UAdd": "pos", "USub": "neg", "Not": "not_"}
SPEC_CMPOPS = {"Eq": "eq", "NotEq": "ne", "Lt": "lt", "LtE": "le", "Gt": "gt", "GtE": "ge"}
SPEC_BOOLOPS = {"And", "Or"}
# numbers/booleans -> Constant; x -> Name, Load; indexing and slicing -> Subscript, Slice, (Index on old
# Pythons), Tuple, List; arithmetic, comparison, boolean operators; the Expression root
SPEC_ALLOWED = ({"Expression", "BoolOp", "UnaryOp", "BinOp", "Compare", "Name", "Load", "Subscript", "Slice",
                 "Constant", "List", "Tuple", "Index"} | set(SPEC_BINOPS) | set(SPEC_UNARYOPS) | set(SPEC_CMPOPS)
                | SPEC_BOOLOPS)


# --------------------------------------------------------------------------- T: tables
def read_tables(tree):
    out = {}
    for n in tree.body:
        if isinstance(n, ast.Assign) and len(n.targets) == 1 and isinstance(n.targets[0], ast.Name):
            name = n.targets[0].id
            if name in ("BINOPS", "UNARYOPS", "BOOLOPS", "CMPOPS") and isinstance(n.value, ast.Dict):
                d = {}
                for k, v in zip(n.value.keys, n.value.values):
                    if not (isinstance(k, ast.Attribute) and isinstance(k.value, ast.Name) and k.value.id == "ast"):
                        raise ValueError(f"{name}: key {ast.unparse(k)} is not an ast class")
                    d[k.attr] = ast.unparse(v)
                out[name] = d
    return out


def table_obligations(run, tree):
    t0 = time.time()
    try:
        tabs = read_tables(tree)
    except ValueError as e:
        run.undecided_ob("C20/tables/read", "pyvc", "ast-table", str(e))
        return
    for name, spec in (("BINOPS", SPEC_BINOPS), ("UNARYOPS", SPEC_UNARYOPS), ("CMPOPS", SPEC_CMPOPS)):
        oname = f"C20/tables/{name}=python-operator-table"
        got = tabs.get(name)
        if got is None:
            run.undecided_ob(oname, "pyvc", "ast-table", f"{name} literal not found")
            continue
        want = {k: f"op.{v}" for k, v in spec.items()}
        if got == want:
            run.discharged(oname, "pyvc", "ast-table", time.time() - t0, sample={"table": got})
        else:
            diff = {k: (got.get(k), want.get(k)) for k in set(got) | set(want) if got.get(k) != want.get(k)}
            rep = replay_table_diff(diff)
            run.failed(oname, "pyvc", "ast-table",
                       what=f"{name} differs from Python's operator table: {diff} (code, specification)",
                       counterexample=rep.get("witness") or diff, replay={"kind": "expression", **rep},
                       reproduced=rep.get("reproduced", False), observed=rep)
    # the whitelist: evaluate the ALLOWED expression on the real module object, compare with SPEC
    import importlib

    mod = importlib.import_module("piquasso.core._expressions")
    allowed = {c.__name__ for c in mod.ALLOWED}
    oname = "C20/tables/ALLOWED=specification-whitelist"
    spec = {n for n in SPEC_ALLOWED if hasattr(ast, n)}
    if allowed == spec:
        run.discharged(oname, "pyvc", "ast-table", 0.0, sample={"allowed": sorted(allowed)})
    else:
        extra, missing = sorted(allowed - spec), sorted(spec - allowed)
        rep = replay_whitelist(extra, missing)
        run.failed(oname, "pyvc", "ast-table",
                   what=f"whitelist differs from the specification: extra={extra} missing={missing}",
                   counterexample=rep.get("witness") or {"extra": extra, "missing": missing},
                   replay={"kind": "expression", **rep}, reproduced=rep.get("reproduced", False), observed=rep)


SAMPLE_SRC = {
    "Add": "x[0] + x[1]", "Sub": "x[0] - x[1]", "Mult": "x[0] * x[1]", "Div": "x[0] / x[1]", "Mod": "x[0] % x[1]",
    "Pow": "x[0] ** x[1]", "BitXor": "x[0] ^ x[1]", "UAdd": "+x[0]", "USub": "-x[0]", "Not": "not x[0]",
    "Eq": "x[0] == x[1]", "NotEq": "x[0] != x[1]", "Lt": "x[0] < x[1]", "LtE": "x[0] <= x[1]", "Gt": "x[0] > x[1]",
    "GtE": "x[0] >= x[1]", "Call": "abs(x[0])", "Attribute": "x.count", "Lambda": "lambda: 1", "IfExp": "1 if x else 2",
    "ListComp": "[i for i in x]", "Dict": "{1: 2}", "Set": "{1, 2}", "JoinedStr": "f'{x}'", "NamedExpr": "(y := 1)",
    "BitAnd": "x[0] & x[1]", "BitOr": "x[0] | x[1]", "FloorDiv": "x[0] // x[1]", "LShift": "x[0] << 1", "RShift": "x[0] >> 1",
    "Invert": "~x[0]", "Is": "x[0] is x[1]", "IsNot": "x[0] is not x[1]", "In": "x[0] in x", "NotIn": "x[0] not in x",
    "MatMult": "x[0] @ x[1]", "Starred": "[*x]", "GeneratorExp": "(i for i in x)", "Await": "await x", "Yield": "(yield)",
}


def replay_table_diff(diff):
    from piquasso.core._expressions import Expression

    for k in diff:
        src = SAMPLE_SRC.get(k)
        if not src:
            continue
        for xs in ((7, 3), (2.5, 4), (True, False), (5, 5)):
            try:
                got = Expression(src)(xs)
            except Exception as e:
                got = f"raised {type(e).__name__}"
            try:
                want = eval(src, {"__builtins__": {}}, {"x": xs})
            except Exception as e:
                want = f"raised {type(e).__name__}"
            if repr(got) != repr(want):
                return {"reproduced": True, "witness": {"src": src, "x": xs, "Expression": repr(got), "python": repr(want)}}
    return {"reproduced": False}


def replay_whitelist(extra, missing):
    from piquasso.api.exceptions import InvalidExpression
    from piquasso.core._expressions import Expression

    for k in extra:
        src = SAMPLE_SRC.get(k)
        if src:
            try:
                Expression(src)
                return {"reproduced": True, "witness": {"src": src, "accepted": True, "specification": "must be rejected at construction"}}
            except InvalidExpression:
                pass
            except Exception as e:
                return {"reproduced": True, "witness": {"src": src, "raised": type(e).__name__}}
    for k in missing:
        src = SAMPLE_SRC.get(k)
        if src:
            try:
                Expression(src)
            except Exception as e:
                return {"reproduced": True, "witness": {"src": src, "rejected": type(e).__name__, "specification": "must be accepted"}}
    return {"reproduced": False}


# --------------------------------------------------------------------------- V: validation
def all_ast_classes():
    out = []
    for name in dir(ast):
        c = getattr(ast, name)
        if isinstance(c, type) and issubclass(c, ast.AST) and c is not ast.AST:
            out.append(c)
    return out


def minimal_instance(cls):
    """an instance of the node class with harmless field values (no children that could themselves
    decide acceptance: children are whitelisted Constant(1) nodes where a node is required)"""
    kw = {}
    for f in getattr(cls, "_fields", ()):
        kw[f] = None
    try:
        node = cls(**kw)
    except TypeError:
        node = cls()
    return node


def validation_obligations(run, tree, src):
    import importlib
    import warnings

    mod = importlib.import_module("piquasso.core._expressions")
    from piquasso.api.exceptions import InvalidExpression

    cls = next(n for n in tree.body if isinstance(n, ast.ClassDef) and n.name == "Expression")
    val = next(n for n in cls.body if isinstance(n, ast.FunctionDef) and n.name == "_validate")
    init = next(n for n in cls.body if isinstance(n, ast.FunctionDef) and n.name == "__init__")
    run.function(REL + ":Expression._validate", ast.unparse(val))
    run.function(REL + ":Expression.__init__", ast.unparse(init))

    # V1: shape of _validate: straight-line prefix, then ONE `for n in ast.walk(tree)` whose body
    # contains only `if ...: raise` statements (no break/continue/return/else that could skip a node)
    oname = "C20/validate/loop-visits-every-node-and-only-raises"
    loops = [s for s in val.body if isinstance(s, (ast.For, ast.While))]
    ok = len(loops) == 1 and isinstance(loops[0], ast.For) and ast.unparse(loops[0].iter) == "ast.walk(tree)" \
        and not loops[0].orelse and val.body[-1] is loops[0]
    reason = ""
    if ok:
        for s in loops[0].body:
            if not (isinstance(s, ast.If) and not s.orelse and all(isinstance(b, ast.Raise) for b in s.body)):
                ok, reason = False, f"loop body statement at line {s.lineno} is not `if ...: raise`"
        for s in val.body[:-1]:
            if not isinstance(s, (ast.Assign, ast.Expr)) or any(isinstance(x, (ast.Return, ast.Raise)) for x in ast.walk(s)):
                ok, reason = False, f"prefix statement at line {s.lineno} may leave the function"
        for x in ast.walk(loops[0]):
            if isinstance(x, (ast.Break, ast.Continue, ast.Return, ast.Try)):
                ok, reason = False, f"{type(x).__name__} inside the validation loop (line {x.lineno})"
    else:
        reason = "expected exactly one trailing `for n in ast.walk(tree)` loop"
    if ok:
        run.discharged(oname, "frames", "ast-shape", 0.0)
    else:
        rep = replay_whitelist(["Call", "Attribute", "Lambda", "IfExp", "ListComp", "Dict", "JoinedStr"], [])
        run.failed(oname, "frames", "ast-shape", what=f"_validate does not check every node: {reason}",
                   counterexample={"reason": reason}, replay={"kind": "expression", **rep},
                   reproduced=rep.get("reproduced", False), observed=rep)

    # V2: the accept predicate of ONE node, exhaustively over node classes / constant types / names
    def accepts(node):
        t = ast.Expression(body=ast.Constant(value=1))
        # ast.walk yields the root and then children; graft the probe as the root's only child
        holder = ast.Expression(body=node)
        try:
            with warnings.catch_warnings():
                warnings.simplefilter("ignore")
                mod.Expression._validate(holder)
            return True
        except InvalidExpression:
            return False

    bad = []
    n_cases = 0
    with warnings.catch_warnings():
        warnings.simplefilter("ignore")
        for c in all_ast_classes():
            if c.__name__ in ("Constant", "Name", "Num", "Str", "Bytes", "NameConstant", "Ellipsis"):
                continue
            try:
                node = minimal_instance(c)
            except Exception:
                continue
            if type(node) is not c:
                continue   # deprecated alias classes (Index, ExtSlice, ...) construct other nodes
            n_cases += 1
            got = accepts(node)
            want = c.__name__ in SPEC_ALLOWED
            if got != want:
                bad.append((c.__name__, got, want))
        for v, want in [(1, True), (1.5, True), (True, True), (False, True), (10 ** 30, True), ("s", False), (b"b", False),
                        (None, False), (..., False), (1j, False)]:
            n_cases += 1
            got = accepts(ast.Constant(value=v))
            if got != want:
                bad.append((f"Constant({type(v).__name__})", got, want))
        for ident, want in [("x", True), ("y", False), ("__import__", False), ("X", False), ("xx", False), ("", False)]:
            n_cases += 1
            got = accepts(ast.Name(id=ident, ctx=ast.Load()))
            if got != want:
                bad.append((f"Name({ident!r})", got, want))
    oname = "C20/validate/accept-predicate-of-one-node=whitelist"
    if not bad:
        run.discharged(oname, "rtc", "exhaustive-over-node-classes", 0.0, sample={"cases": n_cases})
    else:
        names = [b[0] for b in bad if b[1] and not b[2]]
        rep = replay_whitelist(names, [b[0] for b in bad if not b[1] and b[2]])
        run.failed(oname, "rtc", "exhaustive-over-node-classes",
                   what=f"_validate's per-node predicate differs from the whitelist on {bad[:6]} (case, accepted, specification)",
                   counterexample={"cases": bad[:20]}, replay={"kind": "expression", **rep},
                   reproduced=rep.get("reproduced", bool(bad)), observed=rep)

    # V3: __init__ reaches nothing that evaluates the tree
    oname = "C20/validate/construction-does-not-evaluate"
    calls = sorted({ast.unparse(c.func) for c in ast.walk(init) if isinstance(c, ast.Call)})
    allowed_calls = {"src.strip", "ast.parse", "self._validate", "InvalidExpression"}
    forbidden = [c for c in calls if c not in allowed_calls]
    vcalls = sorted({ast.unparse(c.func) for c in ast.walk(val) if isinstance(c, ast.Call)})
    forbidden += [c for c in vcalls if c not in {"tuple", "ast.walk", "isinstance", "InvalidExpression", "type"}]
    parse_ok = all(
        any(k.arg == "mode" and isinstance(k.value, ast.Constant) and k.value.value == "eval" for k in c.keywords)
        for c in ast.walk(init) if isinstance(c, ast.Call) and ast.unparse(c.func) == "ast.parse")
    validated = any(isinstance(s, ast.Expr) and isinstance(s.value, ast.Call) and ast.unparse(s.value.func) == "self._validate"
                    for s in init.body)
    if not forbidden and parse_ok and validated:
        run.discharged(oname, "frames", "call-graph", 0.0, sample={"calls": calls + vcalls})
    else:
        run.failed(oname, "frames", "call-graph",
                   what=f"Expression.__init__/_validate call {forbidden or 'ast.parse without mode=eval / no _validate call'}",
                   counterexample={"calls": calls, "validate_calls": vcalls, "validated": validated},
                   replay={"kind": "none"}, reproduced=False)


# --------------------------------------------------------------------------- E: evaluation
class Oracle:
    """term-keyed truth assignment for symbolic values; records which terms were asked and which
    operator applications were evaluated"""

    def __init__(self, assignment):
        self.assignment = assignment
        self.asked = []
        self.unknown = []
        self.evaluated = set()

    def ask(self, term):
        if term not in self.assignment:
            if term not in self.unknown:
                self.unknown.append(term)
            return True
        if term not in self.asked:
            self.asked.append(term)
        return self.assignment[term]


ORACLE = Oracle({})


class Sym:
    """symbolic outcome value: records which operator is applied to which operands"""
    __slots__ = ("term",)

    def __init__(self, term):
        self.term = term
        if term[0] != "x":
            ORACLE.evaluated.add(term)

    def __repr__(self):
        return repr(self.term)

    def __bool__(self):
        return ORACLE.ask(self.term)

    def __hash__(self):
        return hash(self.term)

    def __getitem__(self, k):
        if isinstance(k, slice):
            k = ("slice", _t(k.start), _t(k.stop), _t(k.step))
        elif isinstance(k, tuple):
            k = ("tuple",) + tuple(_t(i) for i in k)
        else:
            k = _t(k)
        return Sym(("getitem", self.term, k))


def _t(v):
    if isinstance(v, Sym):
        return v.term
    if isinstance(v, (list, tuple)):
        return (type(v).__name__,) + tuple(_t(i) for i in v)
    if isinstance(v, slice):
        return ("slice", _t(v.start), _t(v.stop), _t(v.step))
    return ("const", type(v).__name__, repr(v))


def _mk(name, reflected=False):
    def f(self, other):
        return Sym((name, _t(other), self.term) if reflected else (name, self.term, _t(other)))
    return f


for _n in ("add", "sub", "mul", "truediv", "mod", "pow", "xor", "floordiv", "and", "or", "lshift", "rshift", "matmul"):
    setattr(Sym, f"__{_n}__", _mk(_n))
    setattr(Sym, f"__r{_n}__", _mk(_n, reflected=True))
for _n in ("eq", "ne", "lt", "le", "gt", "ge"):
    setattr(Sym, f"__{_n}__", _mk(_n))
Sym.__neg__ = lambda self: Sym(("neg", self.term))
Sym.__pos__ = lambda self: Sym(("pos", self.term))
Sym.__invert__ = lambda self: Sym(("invert", self.term))

CMP_TAGS = ("eq", "ne", "lt", "le", "gt", "ge")


def canon(v):
    """result modulo `comparison results are booleans`: a symbolic comparison result is identified
    with the boolean the truth assignment gives it"""
    if isinstance(v, Sym):
        if v.term[0] in CMP_TAGS:
            return ("bool", ORACLE.ask(v.term))
        return v.term
    if isinstance(v, bool):
        return ("bool", v)
    if isinstance(v, (list, tuple)):
        return (type(v).__name__,) + tuple(canon(i) for i in v)
    return _t(v)


def run_one(fn, assignment):
    global ORACLE
    ORACLE = Oracle(assignment)
    try:
        r = fn()
        out = ("value", canon(r))
    except Exception as e:
        out = ("raised", type(e).__name__)
    return out, ORACLE


def compare_template(src, nleaves, Expression):
    """-> None if Expression(src) == CPython under every truth assignment, else a witness dict.
    Compared: the returned symbolic term and the SET of operator applications that were evaluated
    (an operand evaluated although Python short-circuits it shows up there)."""
    global ORACLE
    ORACLE = Oracle({})
    xs = tuple(Sym(("x", i)) for i in range(nleaves))
    try:
        expr = Expression(src)
    except Exception as e:
        return {"src": src, "construction": f"raised {type(e).__name__}: {e}", "specification": "accepted"}
    code = compile(ast.parse(src, mode="eval"), "<spec>", "eval")
    terms = []
    while True:
        restart = False
        for bits in itertools.product((True, False), repeat=len(terms)):
            assignment = dict(zip(terms, bits))
            got, o1 = run_one(lambda: expr(xs), assignment)
            want, o2 = run_one(lambda: eval(code, {"__builtins__": {}}, {"x": xs}), assignment)
            new = [t for t in o1.unknown + o2.unknown if t not in terms]
            if new:
                terms.extend(new)
                restart = True
                break
            if got[0] == "raised" and want[0] == "raised":
                continue
            if got != want or o1.evaluated != o2.evaluated:
                return {"src": src, "truth_assignment": {repr(k): v for k, v in assignment.items()},
                        "Expression": repr(got), "python": repr(want),
                        "evaluated_only_by_Expression": repr(sorted(map(repr, o1.evaluated - o2.evaluated)))[:300],
                        "evaluated_only_by_python": repr(sorted(map(repr, o2.evaluated - o1.evaluated)))[:300]}
        if not restart:
            return None
        if len(terms) > 10:
            return {"src": src, "error": "more than 10 distinct truthiness queries"}


BIN = ["+", "-", "*", "/", "%", "**", "^"]
CMP = ["==", "!=", "<", "<=", ">", ">="]


def templates(depth, tier):
    """expression templates of the supported grammar; leaves are x[i] with fresh i (every leaf a
    different symbolic value), plus literals"""
    counter = itertools.count()

    def leaf():
        return f"x[{next(counter)}]"

    out = []

    def fresh():
        nonlocal counter
        counter = itertools.count()

    def add(src_fn):
        fresh()
        s = src_fn()
        out.append((s, next(counter)))

    for op in BIN:
        add(lambda: f"{leaf()} {op} {leaf()}")
        add(lambda: f"{leaf()} {op} {leaf()} {op} {leaf()}")
        add(lambda: f"{leaf()} {op} ({leaf()} {op} {leaf()})")
        add(lambda: f"2 {op} {leaf()}")
        add(lambda: f"{leaf()} {op} 2.5")
    for a, b in itertools.product(BIN, repeat=2):
        add(lambda: f"{leaf()} {a} {leaf()} {b} {leaf()}")
    for u in ("+", "-", "not "):
        add(lambda: f"{u}{leaf()}")
        add(lambda: f"{u}{u}{leaf()}" if u == "not " else f"{u}({u}{leaf()})")
        add(lambda: f"{u}({leaf()} + {leaf()})")
        add(lambda: f"{u}{leaf()} ** {leaf()}")
    for c in CMP:
        add(lambda: f"{leaf()} {c} {leaf()}")
        add(lambda: f"{leaf()} {c} 1")
        add(lambda: f"not {leaf()} {c} {leaf()}")
    for a, b in itertools.product(CMP, repeat=2):
        add(lambda: f"{leaf()} {a} {leaf()} {b} {leaf()}")
    # chains whose later operands are compound: Python does not evaluate them once an earlier link is false
    for a, b in itertools.product(CMP, repeat=2):
        add(lambda: f"{leaf()} {a} {leaf()} {b} {leaf()} / {leaf()}")
        add(lambda: f"{leaf()} {a} {leaf()} * {leaf()} {b} -{leaf()}")
    for a, b, c in itertools.product(CMP[:3], repeat=3):
        add(lambda: f"{leaf()} {a} {leaf()} {b} {leaf()} + {leaf()} {c} {leaf()} % {leaf()}")
    for a, b, c in itertools.product(CMP[:4] if tier == "quick" else CMP, repeat=3):
        add(lambda: f"{leaf()} {a} {leaf()} {b} {leaf()} {c} {leaf()}")
    for k in (2, 3, 4):
        for bop in ("and", "or"):
            add(lambda: f" {bop} ".join(leaf() for _ in range(k)))
    for a, b in itertools.product(("and", "or"), repeat=2):
        add(lambda: f"{leaf()} {a} {leaf()} {b} {leaf()}")
        add(lambda: f"({leaf()} {a} {leaf()}) {b} {leaf()}")
        add(lambda: f"{leaf()} {a} ({leaf()} {b} {leaf()})")
        add(lambda: f"not ({leaf()} {a} {leaf()}) {b} {leaf()}")
        add(lambda: f"{leaf()} < {leaf()} {a} {leaf()} == {leaf()} {b} not {leaf()}")
    for s in ("x[0]", "x[-1]", "x[0:2]", "x[1:]", "x[:1]", "x[::2]", "x[0:3:2]", "x[::-1]", "x[x[0]]", "x[1:x[0]]",
              "x[0][1]", "x[0:2][0]", "(x[0], x[1])", "[x[0], x[1], 3]", "(x[0], (x[1], x[2]))", "x[0] if False else 1" if False else "x[0]",
              "x[0] + x[1] * x[2] - x[3] / x[4]", "(x[0] + x[1]) * (x[2] - x[3])", "x[0] ** x[1] ** x[2]", "-x[0] ** 2",
              "x[0] == 2 and x[1] > 0", "x[-1] == 2", "x[0] > 0", "0.05 * x[0]", "x[0] % 2 == 0 or x[1] % 2 == 1",
              "x[0] ^ x[1] == 1", "True", "False", "1", "2.5", "x", "True and x[0]", "False or x[0]", "not True",
              "1 < 2 < x[0]", "x[0] < x[1] == x[2] != x[3]", 
              "x[0] and x[1] or x[2] and x[3]", "(x[0] or x[1]) and (x[2] or x[3])", "[x[0], x[1]][x[2]]", "(x[0], x[1])[0]",
              "x[(0)]", "x[1,]" if False else "x[1]"):
        out.append((s, 5))
    if tier != "quick" and depth >= 3:
        for a, b in itertools.product(BIN[:4], CMP[:3]):
            for bop in ("and", "or"):
                add(lambda: f"{leaf()} {a} {leaf()} {b} {leaf()} {bop} not {leaf()} {a} {leaf()} {b} {leaf()}")
    seen, uniq = set(), []
    for s, n in out:
        if s not in seen:
            seen.add(s)
            uniq.append((s, max(n, 1)))
    return uniq


def evaluation_obligations(run):
    from piquasso.core._expressions import Expression

    tpls = templates(3, run.tier)
    t0 = time.time()
    bad = []
    for src, n in tpls:
        w = compare_template(src, max(n, 5), Expression)
        if w is not None:
            bad.append(w)
    dt = time.time() - t0
    groups = {
        "binary-and-unary-operators": lambda s: not any(k in s for k in (" and ", " or ", "<", ">", "==", "!=", "[", "(")),
        "comparisons-and-chains": lambda s: any(k in s for k in ("<", ">", "==", "!=")) and " and " not in s and " or " not in s,
        "boolean-short-circuit": lambda s: " and " in s or " or " in s,
        "indexing-slicing-tuples-lists": lambda s: True,
    }
    assigned = set()
    for gname, pred in groups.items():
        members = [s for s, _ in tpls if s not in assigned and pred(s)]
        assigned |= set(members)
        oname = f"C20/eval/{gname}=python-semantics"
        gb = [w for w in bad if w["src"] in members]
        if not gb:
            run.discharged(oname, "symtrace", "symbolic-trace-equality", dt / len(groups),
                           sample={"templates": len(members), "examples": members[:4]})
        else:
            w = gb[0]
            rep = concrete_replay(w["src"])
            run.failed(oname, "symtrace", "symbolic-trace-equality",
                       what=f"{len(gb)} template(s) evaluate differently from Python; first: {w}",
                       counterexample=rep.get("witness") or w, replay={"kind": "expression", "src": w["src"]},
                       reproduced=rep.get("reproduced", False), observed={"symbolic": gb[:5], "concrete": rep})
    run.function(REL + ":Expression._eval")
    run.function(REL + ":Expression.__call__")
    return len(tpls)


def concrete_replay(src):
    """search small concrete outcome tuples for a value-level difference on the real code"""
    from piquasso.core._expressions import Expression

    vals = [0, 1, 2, -1, 0.5, True, False, 3]
    try:
        e = Expression(src)
    except Exception as ex:
        return {"reproduced": True, "witness": {"src": src, "construction": type(ex).__name__}}
    for xs in itertools.islice(itertools.product(vals, repeat=5), 20000):
        try:
            got = e(xs)
            g = ("value", repr(got), type(got).__name__)
        except Exception as ex:
            g = ("raised",)
        try:
            want = eval(src, {"__builtins__": {}}, {"x": xs})
            w = ("value", repr(want), type(want).__name__)
        except Exception as ex:
            w = ("raised",)
        if g != w:
            return {"reproduced": True, "witness": {"src": src, "x": list(xs), "Expression": g, "python": w}}
    return {"reproduced": False}


def instruction_use_obligations(run):
    """api/instruction.py turns strings into Expression objects at construction (`when`, params)
    and only ever *calls* them later."""
    from vf.frames import Analysis

    path = os.path.join(REPO, "piquasso/api/instruction.py")
    tree = ast.parse(open(path).read())
    cls = next(n for n in tree.body if isinstance(n, ast.ClassDef) and n.name == "Instruction")
    fns = {n.name: n for n in cls.body if isinstance(n, ast.FunctionDef)}
    bad = []
    # every isinstance(..., str) branch that handles a condition/parameter builds an Expression
    for fname in ("when", "_get_unresolved_params"):
        f = fns.get(fname)
        if f is None:
            bad.append(f"{fname} not found")
            continue
        srcs = ast.unparse(f)
        if "_expressions.Expression(" not in srcs:
            bad.append(f"{fname} does not construct _expressions.Expression for strings")
        for c in ast.walk(f):
            if isinstance(c, ast.Call) and ast.unparse(c.func) in ("eval", "exec", "compile"):
                bad.append(f"{fname} calls {ast.unparse(c.func)}")
    whole = ast.unparse(tree)
    for c in ast.walk(tree):
        if isinstance(c, ast.Call) and ast.unparse(c.func) in ("eval", "exec", "compile", "__import__"):
            bad.append(f"api/instruction.py calls {ast.unparse(c.func)} at line {c.lineno}")
    oname = "C20/instruction/strings-become-Expression-at-construction"
    if not bad:
        run.discharged(oname, "frames", "ast-shape", 0.0)
    else:
        run.failed(oname, "frames", "ast-shape", what="; ".join(bad), counterexample={"findings": bad},
                   replay={"kind": "none"}, reproduced=False)


def check(run):
    src = open(os.path.join(REPO, REL)).read()
    tree = ast.parse(src)
    table_obligations(run, tree)
    validation_obligations(run, tree, src)
    n = evaluation_obligations(run)
    instruction_use_obligations(run)
    hostile_corpus(run)
    concrete_cross_check(run)
    run.notes.append(f"{n} expression templates, each over all truth assignments of its truthiness queries")
    run.trust("CPython's own evaluation of the template (compile + eval on symbolic operands) is the reference semantics")
    run.trust("ast.walk yields every node of the tree")
    run.assume("expression templates are enumerated to a depth bound (the property's quantifier is bounded in depth); operand VALUES are unbounded symbols")
    run.assume("comparison operators return booleans (a symbolic comparison result is identified with its truth value)")
    run.assume("templates where both the real evaluator and CPython raise are counted as agreeing (the property speaks about accepted values)")


CONCRETE_ONLY = ["(x[0] < x[1]) < x[2]", "x[0] < (x[1] < x[2])", "(x[0] == x[1]) + x[2]", "not x[0] < x[1] == x[2]",
                 "-(x[0] > x[1])", "(x[0] and x[1]) * x[2]", "x[x[0] > 0]", "x[0] ** -x[1]", "x[0] % x[1] / x[2]"]


def concrete_cross_check(run):
    """bounded stand-in for templates whose comparison results feed another operator (outside the
    symbolic domain's `comparisons are booleans` identification): concrete outcome tuples"""
    bad, ev = [], 0
    for src in CONCRETE_ONLY:
        r = concrete_replay(src)
        ev += 1
        if r.get("reproduced"):
            bad.append(r["witness"])
    if bad:
        run.failed("C20/bounded/concrete-cross-check", "rtc", "enumeration", what=f"value differs from Python: {bad[0]}",
                   counterexample=bad[0], replay={"kind": "expression", "src": bad[0]["src"]}, reproduced=True)
    run.bounded_result("C20/bounded/concrete-cross-check-of-nested-comparisons", domain="outcome tuples over "
                       "{0,1,2,-1,0.5,True,False,3}^5 (first 20000)", bound=f"{len(CONCRETE_ONLY)} templates",
                       evaluations=ev * 20000, distinct=len(CONCRETE_ONLY), failures=len(bad))


def hostile_corpus(run):
    """bounded stand-in: hostile strings are rejected at construction, without being evaluated"""
    from piquasso.api.exceptions import InvalidExpression
    from piquasso.core._expressions import Expression

    corpus = [
        "__import__('os').system('true')", "x.__class__", "().__class__.__bases__[0]", "lambda: 1", "[i for i in x]",
        "x[0] if x else 1", "abs(x[0])", "'a' * 3", "b'a'", "f'{x}'", "x[0] @ x[1]", "x[0] // 2", "x[0] & 1", "x[0] | 1",
        "~x[0]", "x[0] << 2", "y", "X", "x; y", "x = 1", "import os", "(yield)", "await x", "{1: 2}", "{1, 2}", "x[0] is None",
        "None", "...", "1j", "x[0] in x", "(y := 2)", "*x", "x.real", "open('f')", "exec('1')", "eval('1')", "", "   ",
        "x[0] +", "((x[0])", "x[0] == 'a'", "\"abc\"", "x[0].bit_length()", "type(x)", "x[0]**x[1]**(lambda: 2)()",
    ]
    sentinel = {"evaluated": False}
    bad = []
    for s in corpus:
        try:
            Expression(s)
            bad.append((s, "accepted"))
        except InvalidExpression:
            pass
        except Exception as e:
            bad.append((s, f"raised {type(e).__name__} instead of InvalidExpression"))
    if bad:
        run.failed("C20/bounded/hostile-corpus-rejected-at-construction", "rtc", "corpus",
                   what=f"{len(bad)} hostile string(s) not rejected with InvalidExpression: {bad[:4]}",
                   counterexample={"strings": bad}, replay={"kind": "expression", "src": bad[0][0]}, reproduced=True)
    run.bounded_result("C20/bounded/hostile-corpus", domain="hand-written hostile strings (names, calls, attributes, "
                       "comprehensions, strings, walrus, statements, syntax errors)", bound=f"{len(corpus)} strings",
                       evaluations=len(corpus), distinct=len(set(corpus)), failures=len(bad))


def replay(path):
    with open(path) as f:
        rep = json.load(f)
    r = rep.get("replay") or {}
    src = r.get("src") or (rep.get("counterexample") or {}).get("src")
    if src:
        out = concrete_replay(src)
        print(json.dumps(out, indent=1, default=str)[:1500])
        return 1 if out.get("reproduced") else 0
    print(rep.get("what"))
    return 1
