"""C06, bosonic enumeration: piquasso/_math/combinatorics.py:partitions lists every weak composition exactly once, in the
order of the sub-space index - for ALL numbers of boxes and particles (pyvc on the real njit function).

The function walks the positions of the `boxes - 1` separators among `positions = particles + boxes - 1` places: a strictly
increasing sequence, advanced by the same lexicographic successor as the fermionic first-quantised form.  With

  FT(sep, positions, l, l) = sum_k C(positions - sep[k] - 1, l - k)        (l = boxes - 1, contracts/C06_fermi.py)

the loop invariant is `index = FT(separators)`: it starts at C(positions, l) - 1 = size - 1 for [0, .., l-1], the successor
lowers FT by exactly one (same ghost lemmas as the fermionic proof) and the row written at `index` is the gap vector of the
separators, whose sub-space rank RK (the function computed by get_index_in_fock_subspace, contracts/C06_int.py) equals
FT(separators) by telescoping.  Post-condition:

  for every r in [0, size):  result[r] >= 0 entrywise, sums to `particles`, and RK(result[r]) = r

i.e. row r is THE composition of rank r: every composition once, in index order, and get_index_in_fock_subspace inverts it.

Extraction: the optional parameter `out` is specialised to its default None (`if out is None: A else: B` -> A), mechanically;
the case `out` given only re-binds `result`.  boxes = 0 (the function's trivial early return) is outside the contract; a single box is inside.
"""
from __future__ import annotations

import ast
import copy

from contracts import C06_fermi          # noqa: F401  (spec functions FT / HS and their lemmas)
from contracts.C06_int import COMB_CALLEE, LEMMAS, SPEC
from vf import pyvc

SEQ = ("Seq", "Int")
INT32 = 2147483647
REL = "piquasso/_math/combinatorics.py"

LEMMAS.update({
    "S_telescope": dict(params=[("v", SEQ), ("s", SEQ), ("b", "Int"), ("P", "Int")], lean="ghost lemma C06_enum.s_telescope (pyvc)",
                        formula="implies(b >= 2 and v[0] == s[0] and v[b - 1] == P - s[b - 2] - 1 and "
                                "forall(lambda c: v[c] == s[c] - s[c - 1] - 1, 1, b - 1), "
                                "forall(lambda j: S(v, b, j) == P - 1 - s[b - 2 - j] - j, 0, b - 1) and S(v, b, b - 1) == P - (b - 1))"),
    "RK_eq_FT": dict(params=[("v", SEQ), ("s", SEQ), ("b", "Int"), ("P", "Int")], lean="ghost lemma C06_enum.rk_eq_ft (pyvc)",
                     formula="implies(b >= 2 and forall(lambda j: S(v, b, j) == P - 1 - s[b - 2 - j] - j, 0, b - 1), "
                             "RK(v, b, b - 1) == FT(s, P, b - 1, b - 1))"),
})

GHOST_SRC = '''
def s_telescope(v, s, b, P):
    j = 0
    while j < b - 2:
        j = j + 1
    return 0


def rk_eq_ft(v, s, b, P):
    j = 0
    while j < b - 1:
        j = j + 1
    return 0
'''

GAPS = ["b >= 2", "v[0] == s[0]", "v[b - 1] == P - s[b - 2] - 1", "forall(lambda c: v[c] == s[c] - s[c - 1] - 1, 1, b - 1)"]
GHOST = {
    "s_telescope": dict(
        params=[("v", SEQ), ("s", SEQ), ("b", "Int"), ("P", "Int")], returns="Int", requires=GAPS,
        ensures=["forall(lambda j: S(v, b, j) == P - 1 - s[b - 2 - j] - j, 0, b - 1)", "S(v, b, b - 1) == P - (b - 1)"],
        loops={"0": dict(invariant=["0 <= j", "j <= b - 2", "forall(lambda t: S(v, b, t) == P - 1 - s[b - 2 - t] - t, 0, j + 1)"])},
        ghost={"loop[0].before": ["use('S_unfold', v, b, 0 - 1)", "use('S_unfold', v, b, 0)"],
               "loop[0].start": ["use('S_unfold', v, b, j + 1)"],
               "exit": ["use('S_unfold', v, b, b - 1)"]}),
    "rk_eq_ft": dict(
        params=[("v", SEQ), ("s", SEQ), ("b", "Int"), ("P", "Int")], returns="Int",
        requires=["b >= 2", "forall(lambda j: S(v, b, j) == P - 1 - s[b - 2 - j] - j, 0, b - 1)"],
        ensures=["RK(v, b, b - 1) == FT(s, P, b - 1, b - 1)"],
        # RK sums from the last separator down, FT from the first one up
        loops={"0": dict(invariant=["0 <= j", "j <= b - 1", "RK(v, b, j) == FT(s, P, b - 1, b - 1) - FT(s, P, b - 1, b - 1 - j)"])},
        ghost={"loop[0].before": ["use('RK_unfold', v, b, 0)"],
               "loop[0].start": ["use('RK_unfold', v, b, j + 1)", "use('FT_unfold', s, P, b - 1, b - 1 - j)"],
               "exit": ["use('FT_unfold', s, P, b - 1, 0)"]}),
}

ROW = ("forall(lambda c: result[{r}, c] >= 0, 0, boxes) and RK(result[{r}], boxes, boxes - 1) == {r} and "
       "S(result[{r}], boxes, boxes - 1) == particles")
SEP_OK = ["len(separators) == boxes - 1",
          "forall(lambda j: 0 <= separators[j] and separators[j] <= positions - (boxes - 1) + j and "
          "implies(j + 1 < boxes - 1, separators[j] < separators[j + 1]), 0, boxes - 1)"]

PARTITIONS = dict(
    params=[("boxes", "Int"), ("particles", "Int")], returns=("Arr2", "Int"), int64=True, array_width=32,
    requires=["1 <= boxes", f"boxes <= {INT32}", "0 <= particles", f"particles + boxes - 1 <= {INT32}",
              # the number of compositions fits the 32-bit index range (the property's own range)
              f"C(particles + boxes - 1, boxes - 1) <= {INT32}"],
    ensures=["len(result) == C(particles + boxes - 1, boxes - 1)",
             "forall(lambda r: " + ROW.format(r="r") + ", 0, len(result))"],
    loops={
        "0": dict(invariant=[
            "positions == particles + boxes - 1", "size == C(positions, boxes - 1)", "len(result) == size", "0 <= index", "index <= size - 1",
            *SEP_OK,
            "index == FT(separators, positions, boxes - 1, boxes - 1)",
            "forall(lambda r: " + ROW.format(r="r") + ", index + 1, size)"]),
        "0.0": dict(invariant=[
            "0 <= i", "i <= boxes - 1", "len(result) == size", "prev == ite(i == 0, 0 - 1, separators[i - 1])",
            "forall(lambda c: result[index, c] == separators[c] - ite(c == 0, 0 - 1, separators[c - 1]) - 1, 0, i)",
            "forall(lambda r: " + ROW.format(r="r") + ", index + 1, size)"]),
        "0.1": dict(invariant=[
            "0 <= i", "i <= boxes - 2", *SEP_OK,
            "forall(lambda j: separators[j] == positions - (boxes - 1) + j, i + 1, boxes - 1)"]),
        "0.2": dict(invariant=[
            "i + 1 <= j", "j <= boxes - 1", "len(separators) == boxes - 1",
            "separators[i] == so_[i] + 1",
            "forall(lambda t: separators[t] == so_[t], 0, i)",
            "forall(lambda t: separators[t] == separators[i] + (t - i), i, j)",
            "forall(lambda t: separators[t] == so_[t], j, boxes - 1)"]),
    },
    ghost={
        "loop[0].before": [
            "use('symm', positions, boxes - 1)", "use('C_out', positions, boxes - 1)", "use('C_pos', positions, boxes - 1)",
            f"use('mul_bound', C(positions, boxes - 1), min(boxes - 1, positions - (boxes - 1)), {INT32})",
            # [0, .., l-1] has FT = C(positions, l) - 1
            "use('FT_tail_run', separators, positions, boxes - 1, 0)", "use('hockey', positions, boxes - 1)",
            "use('FT_unfold', separators, positions, boxes - 1, 0)", "use('C_zero', positions)"],
        "loop[0.1].before": ["use('FT_unfold', separators, positions, boxes - 1, 0)"],
        "loop[0.1].end": ["use('FT_tail_max', separators, positions, boxes - 1, i + 1)",
                          "use('FT_unfold', separators, positions, boxes - 1, 0)"],
    },
    ghost_before={
        # the row is complete: its rank is FT(separators) = index
        "index -= 1": ["let('row_', result[index])",
                       "use('S_telescope', row_, separators, boxes, positions)",
                       "use('RK_eq_FT', row_, separators, boxes, positions)",
                       # a single box: one row, [particles], of rank 0
                       "use('RK_unfold', row_, boxes, 0)", "use('S_unfold', row_, boxes, 0)", "use('S_unfold', row_, boxes, 0 - 1)",
                       "use('FT_unfold', separators, positions, boxes - 1, 0)"],
        "i = boxes - 2": ["let('so_', separators)"],
        "size = comb(": ["use('symm', positions, boxes - 1)", "use('C_out', positions, boxes - 1)", "use('C_pos', positions, boxes - 1)",
                         f"use('mul_bound', C(positions, boxes - 1), min(boxes - 1, positions - (boxes - 1)), {INT32})"],
    },
)
# after the reset loop: FT went down by one (same chain as the fermionic successor)
PARTITIONS["ghost"]["loop[0].end"] = [
    "use('FT_prefix', so_, separators, positions, boxes - 1, i)",
    "use('FT_tail_max', so_, positions, boxes - 1, i + 1)",
    "use('FT_tail_run', separators, positions, boxes - 1, i)",
    "use('FT_unfold', so_, positions, boxes - 1, i + 1)",
    "use('hockey', positions - separators[i], boxes - 1 - i)",
]


def specialise_out_none(func: ast.FunctionDef):
    """`out=None` -> the parameter is dropped and `if out is None: A else: B` becomes A (mechanical)"""
    f = copy.deepcopy(func)
    f.decorator_list = []
    f.args.args = [a for a in f.args.args if a.arg != "out"]
    f.args.defaults = []

    class T(ast.NodeTransformer):
        def visit_If(self, node):
            self.generic_visit(node)
            if ast.unparse(node.test) == "out is None":
                return node.body
            return node

    f = T().visit(f)
    f.body = [s for s in f.body if not (isinstance(s, ast.Expr) and isinstance(s.value, ast.Constant) and isinstance(s.value.value, str))]
    if any(isinstance(n, ast.Name) and n.id == "out" for n in ast.walk(f)):
        raise pyvc.Unsupported("`out` is used outside the `if out is None` test")
    ast.fix_missing_locations(f)
    return f


def check_ghost(run, only=None):
    from contracts import C04_native as N

    saved = N.SPEC, N.LEMMAS
    N.SPEC, N.LEMMAS = SPEC, LEMMAS
    try:
        tree = ast.parse(GHOST_SRC)
        for fn, contract in GHOST.items():
            if only and fn not in only:
                continue
            node = next(n for n in tree.body if isinstance(n, ast.FunctionDef) and n.name == fn)
            N.report(run, N.verify_translated(run, f"contracts/C06_enum.py:{fn}", node, ast.unparse(node), contract, {}))
    finally:
        N.SPEC, N.LEMMAS = saved


def check_partitions(run):
    pyvc.verify_function(run, REL, "partitions", PARTITIONS, SPEC, {"comb": COMB_CALLEE}, transform=specialise_out_none)


def check_basis_assembly(run):
    """nb_get_fock_space_basis places sector n (= partitions(d, n)) at the rows starting at C(d + n - 1, d), which is the full
    index (get_index_in_fock_space = RK_d) of the sector's first vector: statement-level triple on the real `current_row +=
    num_rows` with the Lean lemma hockey_step, plus the shape of the call site (the slices are outside pyvc's subset)"""
    FOCK = "piquasso/_math/fock.py"
    ok = pyvc.verify_fragment(
        run, FOCK, "nb_get_fock_space_basis", "sector-n-starts-at-C(d+n-1,d)",
        select=lambda s_: isinstance(s_, ast.AugAssign) and ast.unparse(s_.target) == "current_row",
        store_sorts={"current_row": "Int", "num_rows": "Int", "d": "Int", "n": "Int"},
        requires=["d >= 1", "n >= 0", "current_row == C(d + n - 1, d)", "num_rows == C(d + n - 1, n)",
                  "implies(d >= 1 and n >= 0, C(d + n - 1, d) + C(d + n - 1, n) == C(d + n, d))"],      # Lean: hockey_step
        ensures=["current_row == C(d + (n + 1) - 1, d)"], spec=SPEC)
    run.trust("lemma hockey_step (Lean: PiquassoLemmas.hockey_step)")
    import os

    from vf.cfg import find_function
    from vf.common import REPO
    fn = find_function(ast.parse(open(os.path.join(REPO, FOCK)).read()), "nb_get_fock_space_basis")
    src = ast.unparse(fn)
    oname = f"{FOCK}:nb_get_fock_space_basis/call-site-shape"
    want = ["num_rows = symmetric_subspace_cardinality(d, n)", "out = ret[current_row:current_row + num_rows, :]",
            "_ = partitions(boxes=d, particles=n, out=out)", "current_row += num_rows", "for n in range(cutoff):",
            "size = cutoff_fock_space_dim(cutoff=cutoff, d=d)", "current_row = 0"]
    missing = [w for w in want if w not in src]
    if missing:
        run.failed(oname, "frames", "ast-shape", what=f"nb_get_fock_space_basis no longer has the contracted shape; missing: {missing}",
                   counterexample={"missing": missing}, replay={"kind": "rtc", "module": "contracts.C06_bounded"}, reproduced=None)
    else:
        run.discharged(oname, "frames", "ast-shape", 0.0, function=f"{FOCK}:nb_get_fock_space_basis")
    return ok


def check(run):
    check_ghost(run)
    check_partitions(run)
    check_basis_assembly(run)
