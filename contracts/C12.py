"""C12 - execution never modifies what the caller passed in, even on failure (DESIGN 5/C12).

Engine: frames (modifies clauses by provenance analysis of the real AST; `restores` by
post-dominance on the exception-augmented CFG).  Replays: line-level fault injection and deep
snapshots on the real code (contracts/C12_dynamic.py).
"""
from __future__ import annotations

import ast
import json
import os
import re
import time

from vf import cfg as cfgmod
from vf.common import REPO
from vf.frames import Analysis

SIM = "piquasso/api/simulator.py:Simulator."

# contract-declared fresh call results (each is an assumption listed in the evidence)
FRESH_CALLS = {
    SIM + "_apply_instruction_to_branches": {"simulation_step"},
    "piquasso/_simulators/passive/sampling.py:generate_lossy_and_partially_distinguishable_samples": {
        "get_lossy_partially_distinguishable_detection_probabilities"},
}

# contract-declared constructor calls (dynamic class objects): result is a new object holding its arguments
NEW_CALLS = {
    "piquasso/api/instruction.py:Instruction.from_dict": {"class_"},
}

# temporaries that execution may write on caller-owned instructions; each needs a `restores`
TEMPORARIES = {".modes", "._modes", "._params.update()", "._original_params", ".__dict__.pop()"}
# private execution hook set on BatchInstruction; not part of modes/params/condition
ALLOWED_PRIVATE = {"._execute"}

API_MODIFIES = [
    # (function id, protected parameter, allowed write paths)
    (SIM + "execute", "program", TEMPORARIES | ALLOWED_PRIVATE),
    (SIM + "execute", "initial_state", set()),
    (SIM + "execute_instructions", "instructions", TEMPORARIES | ALLOWED_PRIVATE),
    (SIM + "execute_instructions", "initial_state", set()),
    (SIM + "validate", "program", set()),
    (SIM + "_validate_instructions", "instructions", set()),
    (SIM + "__init__", "config", set()),
    ("piquasso/api/state.py:State.__init__", "config", set()),
    ("piquasso/api/state.py:State.copy", "self", set()),
    ("piquasso/api/config.py:Config.copy", "self", set()),
    ("piquasso/core/_mixins.py:RegisterMixin.copy", "self", set()),
    ("piquasso/api/program.py:Program.to_blackbird_code", "self", set()),
    ("piquasso/api/program.py:Program._as_code", "self", set()),
    ("piquasso/api/program.py:Program.from_dict", "dict_", set()),
    ("piquasso/api/instruction.py:Instruction.from_dict", "dict_", set()),
    ("piquasso/api/instruction.py:Instruction._as_code", "self", set()),
    ("piquasso/api/utils.py:as_code", "program", set()),
    ("piquasso/api/utils.py:as_code", "simulator", set()),
    ("piquasso/core/_blackbird.py:export_instructions", "instructions", set()),
    ("piquasso/api/instruction.py:Instruction._resolve_params", "outcomes", set()),
    ("piquasso/api/instruction.py:Instruction._is_condition_met", "self", set()),
    ("piquasso/api/result.py:Result.samples", "self", set()),
    ("piquasso/api/result.py:Result.get_counts", "self", set()),
]

NO_CAPTURE = [
    (SIM + "__init__", "config"),
    ("piquasso/api/state.py:State.__init__", "config"),
]

API_ROOTS = [SIM + "execute", SIM + "execute_instructions", SIM + "validate",
             "piquasso/api/utils.py:as_code", "piquasso/api/program.py:Program.to_blackbird_code",
             "piquasso/api/program.py:Program._as_code", "piquasso/api/program.py:Program.from_dict",
             "piquasso/core/_mixins.py:RegisterMixin.copy", "piquasso/api/state.py:State.copy",
             "piquasso/api/config.py:Config.copy", "piquasso/api/config.py:Config.__repr__",
             SIM + "__repr__", "piquasso/api/instruction.py:Instruction.__repr__"]


def _is_attr_store(node, obj, attrs):
    s = node.stmt
    if not isinstance(s, ast.Assign):
        return False
    for t in s.targets:
        if isinstance(t, ast.Attribute) and isinstance(t.value, ast.Name) and t.value.id == obj and t.attr in attrs:
            return True
    return False


def _is_method_call(node, obj, meth):
    s = node.stmt
    return (isinstance(s, ast.Expr) and isinstance(s.value, ast.Call) and isinstance(s.value.func, ast.Attribute)
            and s.value.func.attr == meth and isinstance(s.value.func.value, ast.Name) and s.value.func.value.id == obj)


RESTORES = [
    dict(
        name="instruction.modes",
        function=SIM + "_do_execute_instructions",
        write=lambda n: _is_attr_store(n, "instruction", ("modes", "_modes")) and not (
            isinstance(n.stmt.value, ast.Name) and n.stmt.value.id == "original_modes"),
        restore=lambda n: _is_attr_store(n, "instruction", ("_modes", "modes")) and isinstance(
            n.stmt.value, ast.Name) and n.stmt.value.id == "original_modes",
        guard=None,
        what="instruction.modes is remapped for the step and must be set back to the caller's modes on every exit",
    ),
    dict(
        name="instruction._params",
        function=SIM + "_apply_instruction_to_branches",
        write=lambda n: _is_method_call(n, "instruction", "_resolve_params"),
        restore=lambda n: _is_method_call(n, "instruction", "_unresolve_params"),
        guard="not is_instruction_resolved",
        what="outcome-dependent parameters are resolved in place and must be un-resolved on every exit",
    ),
]


def _assigned_once(func: ast.FunctionDef, name: str) -> bool:
    n = 0
    for x in ast.walk(func):
        if isinstance(x, ast.Name) and x.id == name and isinstance(x.ctx, ast.Store):
            n += 1
    return n == 1


def restores_obligation(run, A: Analysis, spec):
    t0 = time.time()
    fid = spec["function"]
    oname = f"C12/restores/{fid.split(':')[1]}/{spec['name']}"
    if fid not in A.funcs:
        run.undecided_ob(oname, "frames", "cfg-postdominance", f"function {fid} not found")
        return
    f = A.funcs[fid]
    run.function(fid, ast.unparse(f.node))
    g = cfgmod.CFG(f.node)
    writes = [n for n in g.nodes if n.stmt is not None and spec["write"](n)]
    restores = [n for n in g.nodes if n.stmt is not None and spec["restore"](n)]
    if not writes:
        # the temporary is gone: nothing to restore (cover: contract no longer binds -> say so)
        run.undecided_ob(oname, "frames", "cfg-postdominance",
                         "contract no longer binds: no temporary write matching the contract pattern")
        return
    guard = spec["guard"]
    if guard:
        var = guard.replace("not ", "").strip()
        if not _assigned_once(f.node, var):
            run.undecided_ob(oname, "frames", "cfg-postdominance", f"guard variable {var} is assigned more than once")
            return
        # prune the branch of `if <guard>` that contradicts the guard under which the write happens
        for n in g.nodes:
            if n.kind == "test" and n.label == "if " + guard and len(n.succ) == 2:
                n.succ = [n.succ[0]]
    paths = g.escaping_paths(spec["write"], spec["restore"], limit=8)
    dt = time.time() - t0
    if not paths:
        run.discharged(oname, "frames", "cfg-postdominance", dt, function=fid,
                       sample={"writes": [w.text() for w in writes], "restores": [r.text() for r in restores],
                               "cfg_nodes": len(g.nodes)})
        return
    sites = []
    for p in paths:
        raising = None
        for i, n in enumerate(p):
            if n.kind == "RAISES":
                raising = p[i - 1]
        last = raising or p[-2]
        sites.append({"line": last.lineno, "text": last.text(), "exit": p[-1].kind,
                      "path": [f"{n.lineno}: {n.text()}" for n in p if n.stmt is not None][:12]})
    # replay: inject a fault at the first escaping site on the real code
    rep = replay_restore(os.path.join(REPO, fid.split(":")[0]), sites)
    run.failed(
        oname, "frames", "cfg-postdominance",
        what=f"{spec['what']}: {len(paths)} escaping path(s); first: an exception raised at line "
             f"{sites[0]['line']} `{sites[0]['text']}` leaves {spec['name']} modified",
        counterexample={"escaping_sites": sites},
        replay={"kind": "fault-injection", "file": fid.split(":")[0], "sites": [s["line"] for s in sites]},
        reproduced=bool(rep.get("reproduced")),
        observed=rep,
        seconds=dt,
    )


def replay_restore(path, sites):
    from contracts import C12_dynamic as dyn

    out = {"tried": []}
    for site in sites:
        if site["line"] is None:
            continue
        for sname, thunk in dyn.scenarios().items():
            for nth in (1, 2, 3, 5):
                try:
                    before, after, outcome, rnd, hits = dyn.run_with_injection(thunk, path, site["line"], nth)
                except Exception as e:  # pragma: no cover
                    out["tried"].append({"scenario": sname, "error": repr(e)})
                    continue
                if hits < nth:
                    break
                d = dyn.diff(before, after)
                out["tried"].append({"scenario": sname, "line": site["line"], "nth": nth, "outcome": outcome, "diff": d})
                if d and outcome != "returned":
                    out["reproduced"] = True
                    out["witness"] = {"scenario": sname, "inject_at": f"{path}:{site['line']}", "nth_hit": nth,
                                      "outcome": outcome, "first_difference": d}
                    return out
    return out


def modifies_obligations(run, A: Analysis):
    for fid, param, allowed in API_MODIFIES:
        oname = f"C12/modifies/{fid.split(':')[1]}/{param}"
        if fid not in A.funcs:
            run.undecided_ob(oname, "frames", "provenance-analysis", f"function {fid} not found")
            continue
        f = A.funcs[fid]
        if param not in f.params:
            run.undecided_ob(oname, "frames", "provenance-analysis", f"parameter {param} not found")
            continue
        run.function(fid, ast.unparse(f.node))
        bad = [w for w in f.writes.values() if w.root == param and w.path not in allowed]
        if not bad:
            run.discharged(oname, "frames", "provenance-analysis", 0.0, function=fid,
                           sample={"allowed": sorted(allowed), "inferred_writes": sorted({w.path for w in f.writes.values() if w.root == param})})
        else:
            run.failed(oname, "frames", "provenance-analysis",
                       what=f"{fid} may write {sorted({w.path for w in bad})} on caller-owned `{param}` "
                            f"(first: line {bad[0].lineno}: {bad[0].text[:120]})",
                       counterexample={"writes": [w.to_json() for w in bad][:10]},
                       replay={"kind": "snapshot", "function": fid}, reproduced=replay_snapshot(), observed=None)


def replay_snapshot():
    """Run the scenarios without faults and report whether any caller-owned object changed."""
    from contracts import C12_dynamic as dyn

    for sname, thunk in dyn.scenarios().items():
        try:
            before, after, outcome, rnd, _ = dyn.run_with_injection(thunk)
        except Exception:
            continue
        if dyn.diff(before, after):
            return True
    return False


def step_functions(A: Analysis):
    out = []
    for f in A.funcs.values():
        if "simulation_steps" in f.relpath and "." not in f.qualname and len(f.params) >= 2 and f.params[1] == "instruction":
            out.append(f)
    return sorted(out, key=lambda f: f.id)


def step_obligations(run, A: Analysis):
    steps = step_functions(A)
    if len(steps) < 40:
        run.broken_ob("C12/modifies/steps", f"only {len(steps)} step functions found: enumeration is broken")
    for f in steps:
        oname = f"C12/modifies/step/{f.id}/instruction"
        run.function(f.id, ast.unparse(f.node))
        bad = [w for w in f.writes.values() if w.root == "instruction"]
        if not bad:
            run.discharged(oname, "frames", "provenance-analysis", 0.0, function=f.id)
        else:
            run.failed(oname, "frames", "provenance-analysis",
                       what=f"simulation step {f.id} may write {sorted({w.path for w in bad})} reachable from its "
                            f"`instruction` argument (line {bad[0].lineno}: {bad[0].text[:120]})",
                       counterexample={"writes": [w.to_json() for w in bad][:10]},
                       replay={"kind": "snapshot", "function": f.id}, reproduced=replay_snapshot())
    return steps


def cached_obligation(run, A: Analysis):
    bad = []
    for f in A.funcs.values():
        for w in f.writes.values():
            if w.root.startswith("<cached>"):
                bad.append((f.id, w))
    oname = "C12/modifies/lru_cached-arrays-are-never-written"
    if not bad:
        run.discharged(oname, "frames", "provenance-analysis", 0.0, sample={"cached_callables": sorted(A.cached)})
    else:
        run.failed(oname, "frames", "provenance-analysis",
                   what=f"{len(bad)} write(s) into arrays returned by lru_cache'd functions, first: {bad[0][0]} "
                        f"line {bad[0][1].lineno}: {bad[0][1].text[:120]}",
                   counterexample={"writes": [dict(function=fid, **w.to_json()) for fid, w in bad][:10]},
                   replay={"kind": "none"}, reproduced=False)


def capture_obligations(run, A: Analysis):
    for fid, param in NO_CAPTURE:
        oname = f"C12/no-capture/{fid.split(':')[1]}/{param}"
        f = A.funcs.get(fid)
        if f is None:
            run.undecided_ob(oname, "frames", "provenance-analysis", "function not found")
            continue
        caps = [c for c in f.captures.values() if c["param"] == param]
        if not caps:
            run.discharged(oname, "frames", "provenance-analysis", 0.0, function=fid)
        else:
            run.failed(oname, "frames", "provenance-analysis",
                       what=f"{fid} stores the caller's `{param}` without copying (line {caps[0]['line']}: {caps[0]['text']})",
                       counterexample={"captures": caps}, replay={"kind": "snapshot"}, reproduced=replay_snapshot())


def atomic_resolve_obligation(run, A: Analysis):
    """_resolve_params may raise only before its single write (so an exception inside it leaves the
    instruction untouched - the assumption the restores obligation makes about the write node)."""
    fid = "piquasso/api/instruction.py:Instruction._resolve_params"
    oname = "C12/atomic/Instruction._resolve_params"
    f = A.funcs.get(fid)
    if f is None:
        run.undecided_ob(oname, "frames", "provenance-analysis", "function not found")
        return
    body = f.node.body
    last = body[-1]
    self_writes = [w for w in f.writes.values() if w.root == "self"]
    # writes may only happen in the trailing straight-line statements (after the resolving loop);
    # the last one is the update of _params, anything before it only touches private bookkeeping
    tail_lines = set()
    for s in reversed(body):
        if isinstance(s, (ast.Assign, ast.Expr)):
            for n in ast.walk(s):
                if hasattr(n, "lineno"):
                    tail_lines.add(n.lineno)
        else:
            break
    ok = (bool(self_writes) and all(w.lineno in tail_lines for w in self_writes)
          and isinstance(last, ast.Expr) and ast.unparse(last).startswith("self._params.update(")
          and all(w.path in ("._params.update()", "._original_params") for w in self_writes))
    if ok:
        run.discharged(oname, "frames", "provenance-analysis", 0.0, function=fid)
    else:
        run.failed(oname, "frames", "provenance-analysis",
                   what="Instruction._resolve_params writes to the instruction before its last statement; an exception "
                        "in the middle would leave it half-resolved",
                   counterexample={"writes": [w.to_json() for w in self_writes]}, replay={"kind": "none"}, reproduced=False)


def rng_obligations(run, A: Analysis):
    """No function reachable from the public API writes process-global random state
    (observe_at: random.getstate())."""
    roots = list(API_ROOTS) + [f.id for f in step_functions(A)] + ["piquasso/api/state.py:State.__init__"]
    reach = {r: A.reachable([r]) for r in roots if r in A.funcs}
    writers = [(f, e) for f in A.funcs.values() for e in f.rng if e["mode"] == "write"]
    seen = set()
    for f, e in writers:
        oname = f"C12/global-random-state/{f.id}/{e['call']}"
        if oname in seen:
            continue
        seen.add(oname)
        roots = sorted(r for r, s in reach.items() if f.id in s)
        if not roots:
            run.discharged(oname, "frames", "call-graph-reachability", 0.0, function=f.id)
        else:
            rep = replay_random_state()
            run.failed(oname, "frames", "call-graph-reachability",
                       what=f"{f.id} line {e['line']} calls {e['call']} and is reachable from {roots[:4]}: "
                            "validating/executing/exporting can change random.getstate()",
                       counterexample={"site": e, "reachable_from": roots}, replay={"kind": "random-state"},
                       reproduced=rep.get("reproduced", False), observed=rep)
    if not writers:
        run.discharged("C12/global-random-state/no-writer-of-global-random-state-in-package", "frames",
                       "call-graph-reachability", 0.0)


def replay_random_state():
    import random

    import piquasso as pq

    out = {}
    program = pq.Program(instructions=[pq.Vacuum(), pq.Squeezing(r=0.1).on_modes(0)])
    sim = pq.GaussianSimulator(d=1, config=pq.Config(seed_sequence=1))
    for name, thunk in {
        "as_code": lambda: pq.as_code(program, sim),
        "repr(simulator)": lambda: repr(sim),
        "execute": lambda: sim.execute(program),
        "validate": lambda: sim.validate(program),
    }.items():
        st = random.getstate()
        thunk()
        out[name] = random.getstate() != st
    out["reproduced"] = any(out.values())
    return out


def bounded_dynamic(run):
    """Bounded stand-in: every scenario without faults, and a fault at every line of the two
    execution loops (each hit count 1..3): caller-owned objects unchanged afterwards."""
    from contracts import C12_dynamic as dyn

    path = os.path.join(REPO, "piquasso/api/simulator.py")
    src = open(path).read()
    tree = ast.parse(src)
    lines = set()
    for fn in ("_do_execute_instructions", "_apply_instruction_to_branches", "execute_instructions"):
        node = cfgmod.find_function(tree, "Simulator." + fn)
        for n in ast.walk(node):
            # the line of a `try:` keyword evaluates nothing and cannot raise: not an injection point
            if isinstance(n, ast.stmt) and n is not node and not isinstance(n, ast.Try):
                lines.add(n.lineno)
        # a fault *at the restoring statement itself* is not a meaningful injection point
        for t in ast.walk(node):
            if isinstance(t, ast.Try):
                for fs in t.finalbody:
                    for n in ast.walk(fs):
                        if isinstance(n, ast.stmt):
                            lines.discard(n.lineno)
    ipath = os.path.join(REPO, "piquasso/api/instruction.py")
    itree = ast.parse(open(ipath).read())
    ilines = set()
    for fn in ("_resolve_params", "_is_condition_met"):
        node = cfgmod.find_function(itree, "Instruction." + fn)
        for n in ast.walk(node):
            if isinstance(n, ast.stmt) and n is not node and not isinstance(n, ast.Try):
                ilines.add(n.lineno)
    evaluations, distinct, failures = 0, set(), 0
    found = {}
    scen = dyn.scenarios()
    nths = (1, 2) if run.tier == "quick" else (1, 2, 3, 4, 6)
    targets = [(None, None)] + [(path, l) for l in sorted(lines)] + [(ipath, l) for l in sorted(ilines)]
    for sname, thunk in scen.items():
        for (p, l) in targets:
            for nth in (nths if p else (1,)):
                try:
                    before, after, outcome, rnd, hits = dyn.run_with_injection(thunk, p, l, nth)
                except Exception as e:
                    run.broken_ob("C12/bounded/fault-injection", f"harness error {e!r} in {sname} at {p}:{l}")
                    return
                if p and hits < nth:
                    break
                evaluations += 1
                distinct.add((sname, p, l, nth))
                d = dyn.diff(before, after)
                if d:
                    failures += 1
                    which = "instruction.modes" if "modes" in d else ("instruction._params" if "params" in d else "other")
                    found.setdefault(which, []).append({"scenario": sname, "file": p, "line": l, "nth": nth,
                                                        "outcome": outcome, "difference": d})
    for which, wits in found.items():
        w = wits[0]
        run.failed(f"C12/bounded/unchanged-after-fault-or-run/{which}", "rtc", "fault-injection",
                   what=f"{len(wits)} injection(s) leave caller-owned data changed; first: scenario {w['scenario']}, "
                        f"{w['outcome']} (fault at {os.path.basename(w['file']) if w['file'] else '-'}:{w['line']}, hit {w['nth']}): {w['difference']}",
                   counterexample=w, replay={"kind": "fault-injection-one", **w}, reproduced=True,
                   observed={"witnesses": wits[:10]})
    run.bounded_result("C12/bounded/fault-injection-at-every-line-of-the-execution-loops",
                       domain=f"{len(scen)} scenarios (adaptive PureFock/Fock programs, Gaussian with matrix params and "
                              f"initial_state, Sampling) x every statement line of Simulator.execute_instructions/"
                              f"_do_execute_instructions/_apply_instruction_to_branches and Instruction._resolve_params/"
                              f"_unresolve_params/_is_condition_met x hit counts {nths}",
                       bound="deep snapshot of program/instructions/initial_state/config before vs after",
                       evaluations=evaluations, distinct=len(distinct), failures=failures)


# ------------------------------------------------------------------------------------------ copies are deep
# ints / the stateless connector service / the random stream (Config.copy documents that the generator is shared on purpose)
SHARED_BY_DESIGN = {"self.d", "self._d", "self._connector", "self.connector", "self.rng", "self._python_rng"}


def _fresh_expr(e):
    """is this expression a new object sharing no mutable state with `self`? (syntactic, sound for the listed forms)"""
    from vf.frames import ALIASING_NP, FRESH_FUNCS, FRESH_METHODS

    if isinstance(e, (ast.Constant, ast.BinOp, ast.UnaryOp, ast.Compare)):
        return True
    if ast.unparse(e) in SHARED_BY_DESIGN:
        return True
    if isinstance(e, ast.Call):
        name = ast.unparse(e.func)
        base = name.replace("self._connector.np.", "np.").replace("self._connector.fallback_np.", "np.").replace("self._np.", "np.")
        if base.split(".")[-1] in ALIASING_NP:
            return False
        if base in FRESH_FUNCS and base not in ("len",):
            # np.array(x, copy=False) may alias
            return not any(k.arg == "copy" and isinstance(k.value, ast.Constant) and k.value.value is False for k in e.keywords)
        if isinstance(e.func, ast.Attribute) and e.func.attr in ("copy", "deepcopy") and not e.args:
            return True
        if name in ("copy.deepcopy", "deepcopy") and len(e.args) == 1:
            return True
    return False


def copy_obligations(run):
    """every `copy` method of the package returns an object sharing no mutable state with `self`: either it is
    `copy.deepcopy(self)`, or it builds a new object whose constructor arguments and attribute stores are fresh"""
    import glob

    for path in sorted(glob.glob(os.path.join(REPO, "piquasso", "**", "*.py"), recursive=True)):
        rel = os.path.relpath(path, REPO)
        tree = ast.parse(open(path).read())
        for cls in [n for n in ast.walk(tree) if isinstance(n, ast.ClassDef)]:
            for fn in [n for n in cls.body if isinstance(n, ast.FunctionDef) and n.name == "copy"]:
                t0 = time.time()
                oname = f"C12/copy-is-deep/{rel}:{cls.name}.copy"
                body = [s for s in fn.body if not (isinstance(s, ast.Expr) and isinstance(s.value, ast.Constant))]
                bad = []
                if len(body) == 1 and isinstance(body[0], ast.Return) and ast.unparse(body[0].value) in ("copy.deepcopy(self)", "deepcopy(self)"):
                    pass
                else:
                    new = None
                    for st_ in body:
                        if isinstance(st_, ast.Assign) and len(st_.targets) == 1 and isinstance(st_.targets[0], ast.Name) and isinstance(st_.value, ast.Call) and new is None:
                            new = st_.targets[0].id
                            if _fresh_expr(st_.value):      # e.g. copy.deepcopy(self)
                                continue
                            for a in list(st_.value.args) + [k.value for k in st_.value.keywords]:
                                if not _fresh_expr(a):
                                    bad.append((st_.lineno, f"constructor argument `{ast.unparse(a)}`"))
                        elif (isinstance(st_, ast.Assign) and len(st_.targets) == 1 and isinstance(st_.targets[0], ast.Attribute)
                              and isinstance(st_.targets[0].value, ast.Name) and st_.targets[0].value.id == new):
                            if not _fresh_expr(st_.value):
                                bad.append((st_.lineno, f"`{ast.unparse(st_)}`"))
                        elif isinstance(st_, ast.Return) and isinstance(st_.value, ast.Name) and st_.value.id == new:
                            pass
                        else:
                            bad.append((st_.lineno, f"statement outside the recognised copy pattern: `{ast.unparse(st_)[:80]}`"))
                if bad:
                    rep = replay_copy_shares_memory()
                    run.failed(oname, "frames", "ast-structure", what=f"{cls.name}.copy may share mutable state with the original: "
                               + "; ".join(f"line {l}: {w}" for l, w in bad[:4]), counterexample={"sites": bad[:6]},
                               replay={"kind": "copy-shares-memory"}, reproduced=rep.get("reproduced"), observed=rep,
                               seconds=time.time() - t0)
                else:
                    run.discharged(oname, "frames", "ast-structure", time.time() - t0, function=f"{rel}:{cls.name}.copy",
                                   sample={"lines": [fn.lineno, fn.end_lineno]})


def replay_copy_shares_memory():
    """state.copy() of every simulator's state: no ndarray reachable from the copy shares memory with one of the original"""
    import numpy as np
    import piquasso as pq

    def arrays(o, seen, depth=0):
        if id(o) in seen or depth > 4:
            return
        seen.add(id(o))
        if isinstance(o, np.ndarray):
            if np.issubdtype(o.dtype, np.inexact):      # state data; integer tables (cached basis / index arrays) are read-only lookups
                yield o
        elif isinstance(o, (list, tuple)):
            for x in o:
                yield from arrays(x, seen, depth + 1)
        elif isinstance(o, dict):
            for x in o.values():
                yield from arrays(x, seen, depth + 1)
        elif hasattr(o, "__dict__") and type(o).__module__.startswith("piquasso") and "connector" not in type(o).__name__.lower():
            for x in vars(o).values():
                yield from arrays(x, seen, depth + 1)

    out = {"shared": []}
    progs = {
        "PureFockSimulator": (pq.PureFockSimulator(d=2, config=pq.Config(cutoff=3)), [pq.Vacuum(), pq.Squeezing(0.1).on_modes(0)]),
        "FockSimulator": (pq.FockSimulator(d=2, config=pq.Config(cutoff=3)), [pq.Vacuum(), pq.Squeezing(0.1).on_modes(0)]),
        "GaussianSimulator": (pq.GaussianSimulator(d=2), [pq.Vacuum(), pq.Squeezing(0.1).on_modes(0)]),
        "SamplingSimulator": (pq.SamplingSimulator(d=2), [pq.StateVector([1, 0]), pq.Beamsplitter(0.3).on_modes(0, 1)]),
    }
    for name, (sim, ins) in progs.items():
        try:
            st = sim.execute_instructions(ins).state
            cp = st.copy()
            orig = [a for a in arrays(st, set()) if a.size]
            for b in arrays(cp, set()):
                if b.size and any(np.shares_memory(a, b) for a in orig):
                    out["shared"].append({"state": type(st).__name__, "shape": list(b.shape)})
        except Exception as e:      # noqa: BLE001
            out.setdefault("errors", []).append(f"{name}: {e!r}"[:200])
    out["reproduced"] = bool(out["shared"])
    return out


def check(run):
    t0 = time.time()
    A = Analysis(REPO, fresh_calls=FRESH_CALLS, new_calls=NEW_CALLS)
    run.notes.append(f"frames analysis: {len(A.funcs)} functions of piquasso/**/*.py in {time.time() - t0:.1f}s")
    for spec in RESTORES:
        restores_obligation(run, A, spec)
    atomic_resolve_obligation(run, A)
    modifies_obligations(run, A)
    steps = step_obligations(run, A)
    run.notes.append(f"{len(steps)} simulation-step functions under the contract `modifies state only`")
    cached_obligation(run, A)
    capture_obligations(run, A)
    copy_obligations(run)
    rng_obligations(run, A)
    bounded_dynamic(run)
    run.trust("vf/frames.py provenance analysis (over-approximating, flow-sensitive per function, summaries to fixpoint)")
    run.trust("vf/cfg.py exception-augmented CFG (every statement that is not a plain local/private-attribute move may raise)")
    for fid, calls in FRESH_CALLS.items():
        run.assume(f"declared fresh result: calls to {sorted(calls)} inside {fid} return objects that do not alias their arguments")
    for fid, calls in NEW_CALLS.items():
        run.assume(f"declared constructor: calls to {sorted(calls)} inside {fid} build a new object (dynamic class lookup)")
    run.assume("copy.deepcopy returns a structurally equal object sharing no mutable state with its argument")
    run.assume("an exception raised inside Instruction._resolve_params leaves the instruction unmodified (obligation C12/atomic)")
    run.assume("external libraries (numpy, scipy, blackbird, numba kernels) do not write into their array arguments unless named in MUTATING_METHODS / out=")
    run.assume("native kernels' write sets (pybind wrappers) are covered by the cppvc part (C12/native/*), not by this analysis")
    try:
        from contracts import C12_native

        C12_native.check(run)
    except ImportError:
        run.notes.append("C12/native (cppvc write sets of the pybind wrappers): not built yet")


def replay(path):
    from contracts import C12_dynamic as dyn

    with open(path) as f:
        rep = json.load(f)
    r = rep.get("replay") or {}
    if r.get("kind") == "fault-injection":
        file = os.path.join(REPO, r["file"]) if not os.path.isabs(r.get("file", "")) else r["file"]
        lines = r.get("sites") or [r.get("line")]
        out = replay_restore(file, [{"line": l} for l in lines])
        print(json.dumps(out.get("witness") or out, indent=1)[:2000])
        return 1 if out.get("reproduced") else 0
    if r.get("kind") == "copy-shares-memory":
        out = replay_copy_shares_memory()
        print(out)
        return 1 if out["reproduced"] else 0
    if r.get("kind") == "random-state":
        out = replay_random_state()
        print(out)
        return 1 if out["reproduced"] else 0
    print("static finding without a dynamic replay:", rep.get("what"))
    return 1 if replay_snapshot() else 0
