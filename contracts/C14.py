"""C14 - Gaussian states: representation consistency and hbar invariance (DESIGN 5/C14).

Engine: symtrace (real functions of gaussian/state.py on symbolic (m, C, G), symbolic hbar>0)
plus a pyvc-style integer obligation for the index permutations.
"""
from __future__ import annotations

import contextlib
import itertools
import json

import numpy as np

from vf import symtrace as st
from vf import sympoly as sp
from vf.sympoly import Refuse

STATE = "piquasso/_simulators/gaussian/state.py:GaussianState."
FUNCS = [STATE + n for n in (
    "xxpp_mean_vector", "xxpp_mean_vector.setter", "xxpp_covariance_matrix", "xxpp_covariance_matrix.setter",
    "xpxp_mean_vector", "xpxp_mean_vector.setter", "xpxp_covariance_matrix", "xpxp_covariance_matrix.setter",
    "xxpp_correlation_matrix", "xpxp_correlation_matrix", "complex_displacement", "complex_covariance",
    "Q_matrix", "rotated", "reduced", "xpxp_reduced_rotated_mean_and_covariance", "get_purity",
    "mean_photon_number", "variance_photon_number", "get_threshold_detection_probability",
    "_get_density_matrix_calculation", "_is_displaced", "_from_representation")] + [
    "piquasso/_math/transformations.py:xxpp_to_xpxp_indices",
    "piquasso/_math/transformations.py:xpxp_to_xxpp_indices",
]


def perm_xxpp_to_xpxp(d):
    """spec: position i of the xpxp vector (x1,p1,...,xd,pd) holds entry i//2 + (i%2)*d of xxpp."""
    return [i // 2 + (i % 2) * d for i in range(2 * d)]


def O(x):
    return st.to_obj(x)


def fresh_state(env, d, config=None):
    from piquasso._simulators.gaussian.state import GaussianState

    return GaussianState(d=d, connector=env.connector, config=config or env.config)


def same_state_other_hbar(env, state, hbar):
    import piquasso as pq
    from piquasso._simulators.gaussian.state import GaussianState

    cfg = pq.Config(hbar=hbar, validate=False)
    s2 = GaussianState(d=state.d, connector=env.connector, config=cfg)
    s2._m, s2._C, s2._G = state._m.copy(), state._C.copy(), state._G.copy()
    return s2


def transpose_conj(a):
    out = np.empty(a.shape, dtype=object)
    for idx in np.ndindex(a.shape):
        x = a[idx]
        out[idx] = x.conjugate()
    return out


# ------------------------------------------------------------------ representation obligations
def ob_ladder_definitions(d):
    def build(env):
        s = env.gaussian_state(d)
        m, C, G = O(s._m), O(s._C), O(s._G)
        I = np.identity(d, dtype=object)
        mu_c = np.concatenate([m, transpose_conj(m)])
        sigma_c = np.block([[2 * C.T + I, 2 * G], [2 * transpose_conj(G), 2 * C + I]])
        return [O(s.complex_displacement), O(s.complex_covariance), O(s.Q_matrix)], [
            mu_c, sigma_c, (sigma_c + np.identity(2 * d, dtype=object)) / 2]

    return build


def ob_complex_vs_xxpp(d):
    def build(env):
        s = env.gaussian_state(d)
        W = st.W_matrix(d, env)
        mu = st.exact(env, s.xxpp_mean_vector)
        sigma = st.exact(env, s.xxpp_covariance_matrix)
        return [O(s.complex_displacement) * env.sqrt_hbar, O(s.complex_covariance) * env.hbar], [
            W @ mu, W @ sigma @ W.conj().T]

    return build


def ob_xpxp_is_permuted_xxpp(d):
    def build(env):
        s = env.gaussian_state(d)
        p = perm_xxpp_to_xpxp(d)
        mu, sigma = O(s.xxpp_mean_vector), O(s.xxpp_covariance_matrix)
        corr = O(s.xxpp_correlation_matrix)
        return [O(s.xpxp_mean_vector), O(s.xpxp_covariance_matrix), O(s.xpxp_correlation_matrix), corr], [
            mu[p], sigma[np.ix_(p, p)], corr[np.ix_(p, p)], sigma + 2 * np.outer(mu, mu)]

    return build


def ob_setter_after_getter(d, basis):
    def build(env):
        s = env.gaussian_state(d)
        t = fresh_state(env, d)
        if basis == "xpxp":
            t.xpxp_mean_vector = s.xpxp_mean_vector
            t.xpxp_covariance_matrix = s.xpxp_covariance_matrix
        else:
            t.xxpp_mean_vector = s.xxpp_mean_vector
            t.xxpp_covariance_matrix = s.xxpp_covariance_matrix
        return [O(t._m), O(t._C), O(t._G)], [O(s._m), O(s._C), O(s._G)]

    return build


def ob_getter_after_setter(d, basis):
    def build(env):
        t = fresh_state(env, d)
        v = env.arr([env.real(f"v{i}") for i in range(2 * d)]) if env.symbolic else np.array(
            [env.real(f"v{i}") for i in range(2 * d)])
        S = env.rsymmetric("S", 2 * d)
        if not env.symbolic:
            S = S.real
        if basis == "xpxp":
            t.xpxp_mean_vector = v
            t.xpxp_covariance_matrix = S
            return [O(t.xpxp_mean_vector), O(t.xpxp_covariance_matrix)], [O(v), O(S)]
        t.xxpp_mean_vector = v
        t.xxpp_covariance_matrix = S
        return [O(t.xxpp_mean_vector), O(t.xxpp_covariance_matrix)], [O(v), O(S)]

    return build


def ob_reduced(d, modes):
    def build(env):
        s = env.gaussian_state(d)
        r = s.reduced(modes)
        idx = list(modes) + [m + d for m in modes]
        mu, sigma = O(s.xxpp_mean_vector), O(s.xxpp_covariance_matrix)
        W = st.W_matrix(len(modes), env)
        return [O(r.xxpp_mean_vector), O(r.xxpp_covariance_matrix), O(r.complex_displacement) * env.sqrt_hbar], [
            mu[idx], sigma[np.ix_(idx, idx)], W @ st.exact(env, mu[idx])]

    return build


def ob_rotated(d, modes):
    def build(env):
        s = env.gaussian_state(d)
        phi = env.angle("rot.phi")
        c, sn = env.np.cos(phi), env.np.sin(phi)
        k = len(modes)
        I = np.identity(k, dtype=object)
        R = np.block([[c * I, sn * I], [-sn * I, c * I]])
        idx = list(modes) + [m + d for m in modes]
        mu, sigma = O(s.xxpp_mean_vector)[idx], O(s.xxpp_covariance_matrix)[np.ix_(idx, idx)]
        a = s.reduced(modes).rotated(phi)
        b = s.rotated(phi).reduced(modes)
        p = perm_xxpp_to_xpxp(k)
        mean_rr, cov_rr = s.xpxp_reduced_rotated_mean_and_covariance(modes, phi)
        want_mu, want_sigma = R @ mu, R @ sigma @ R.T
        return [O(a.xxpp_mean_vector), O(a.xxpp_covariance_matrix), O(b.xxpp_mean_vector), O(b.xxpp_covariance_matrix),
                O(mean_rr), O(cov_rr)], [
            want_mu, want_sigma, want_mu, want_sigma, want_mu[p], want_sigma[np.ix_(p, p)]]

    return build


def ob_scaling(d):
    def build(env):
        s = env.gaussian_state(d)
        s1 = same_state_other_hbar(env, s, 1.0)
        return [O(s.xxpp_mean_vector), O(s.xxpp_covariance_matrix), O(s.xpxp_mean_vector), O(s.xpxp_covariance_matrix),
                O(s.complex_displacement), O(s.complex_covariance)], [
            O(s1.xxpp_mean_vector) * env.sqrt_hbar, O(s1.xxpp_covariance_matrix) * env.hbar,
            O(s1.xpxp_mean_vector) * env.sqrt_hbar, O(s1.xpxp_covariance_matrix) * env.hbar,
            O(s1.complex_displacement), O(s1.complex_covariance)]

    return build


# ------------------------------------------------------------------ hbar-freeness obligations
class _Captured(Exception):
    def __init__(self, args):
        self.args_ = args


@contextlib.contextmanager
def capture(module, names):
    saved = {n: getattr(module, n) for n in names}

    def mk(n):
        def rec(*a, **k):
            vals = [x for x in list(a) + list(k.values()) if isinstance(x, np.ndarray)]
            raise _Captured(vals)
        return rec

    for n in names:
        setattr(module, n, mk(n))
    try:
        yield
    finally:
        for n, f in saved.items():
            setattr(module, n, f)


def captured_args(module, names, thunk):
    with capture(module, names):
        try:
            thunk()
        except _Captured as c:
            return [O(x) for x in c.args_]
    raise Refuse(f"none of {names} was called")


def ob_purity(d):
    """get_purity at hbar equals get_purity at hbar = 1 on the same (m, C, G): det is computed
    exactly, sqrt(det) is an uninterpreted atom keyed by the hbar-free cofactor."""

    def build(env):
        s = env.gaussian_state(d)
        s1 = same_state_other_hbar(env, s, 1.0)
        return [s.get_purity()], [s1.get_purity()]

    return build


def ob_photon_number(d):
    def build(env):
        s = env.gaussian_state(d)
        s1 = same_state_other_hbar(env, s, 1.0)
        return [s.mean_photon_number(), s.mean_photon_number((0,))], [s1.mean_photon_number(), s1.mean_photon_number((0,))]

    return build


def ob_threshold_args(d, displaced):
    def build(env):
        import piquasso._simulators.gaussian.state as state_mod

        s = env.gaussian_state(d)
        if not displaced:
            s._m = 0 * s._m if not env.symbolic else st.exact(env, np.zeros(d))
        s1 = same_state_other_hbar(env, s, 1.0)
        names = ["calculate_click_probability_nondisplaced", "calculate_click_probability"]
        occ = (1,) * d
        a = captured_args(state_mod, names, lambda: s.get_threshold_detection_probability(occ))
        b = captured_args(state_mod, names, lambda: s1.get_threshold_detection_probability(occ))
        return a, b

    return build


def ob_density_matrix_args(d, displaced):
    def build(env):
        import piquasso._simulators.gaussian.state as state_mod

        s = env.gaussian_state(d)
        if not displaced:
            s._m = 0 * s._m if not env.symbolic else st.exact(env, np.zeros(d))
        s1 = same_state_other_hbar(env, s, 1.0)
        names = ["NondisplacedDensityMatrixCalculation", "DisplacedDensityMatrixCalculation"]
        a = captured_args(state_mod, names, lambda: s._get_density_matrix_calculation())
        b = captured_args(state_mod, names, lambda: s1._get_density_matrix_calculation())
        if len(a) != (2 if displaced else 1):
            raise Refuse("unexpected density-matrix calculation for this displacement case")
        return a, b

    return build


def ob_steps_hbar_free(d):
    """(m, C, G) produced by the linear steps from hbar-free blocks do not depend on hbar."""

    def build(env):
        from piquasso._simulators.gaussian import simulation_steps as steps

        out_a, out_b = [], []
        for hb in (None, 1.0):
            s = env.gaussian_state(d)
            if hb is not None:
                s = same_state_other_hbar(env, s, hb)
            modes = tuple(range(d - 1, -1, -1))[: min(2, d)]
            Pb, Ab = env.cmatrix("P", len(modes)), env.cmatrix("A", len(modes))
            steps._apply_linear(s, Pb, Ab, modes)
            steps._apply_passive_linear(s, Pb, modes)
            (out_a if hb is None else out_b).extend([O(s._m), O(s._C), O(s._G)])
        return out_a, out_b

    return build


# ------------------------------------------------------------------ integer part (all d)
def index_permutation_obligations(run):
    """xxpp_to_xpxp_indices / xpxp_to_xxpp_indices are mutually inverse permutations of
    range(2d) for ALL d: verification conditions generated from the real source by pyvc."""
    from contracts import C14_indices

    C14_indices.check(run)


def obligations(tier):
    dmax = 3 if tier == "quick" else 4
    obs = {}
    for d in range(1, dmax + 1):
        obs[f"C14/ladder-definitions/d={d}"] = ob_ladder_definitions(d)
        obs[f"C14/complex=W.xxpp/d={d}"] = ob_complex_vs_xxpp(d)
        obs[f"C14/xpxp=perm(xxpp)+correlation/d={d}"] = ob_xpxp_is_permuted_xxpp(d)
        for basis in ("xpxp", "xxpp"):
            obs[f"C14/setter.getter=id/{basis}/d={d}"] = ob_setter_after_getter(d, basis)
            obs[f"C14/getter.setter=id/{basis}/d={d}"] = ob_getter_after_setter(d, basis)
        obs[f"C14/scaling-sqrt(hbar)-and-hbar/d={d}"] = ob_scaling(d)
        for k in range(1, d + 1):
            for modes in itertools.permutations(range(d), k):
                tag = ",".join(map(str, modes))
                obs[f"C14/reduced/d={d}/modes=({tag})"] = ob_reduced(d, modes)
                obs[f"C14/rotated-commutes-with-reduced/d={d}/modes=({tag})"] = ob_rotated(d, modes)
        obs[f"C14/hbar-free/photon-number/d={d}"] = ob_photon_number(d)
        obs[f"C14/hbar-free/linear-steps-keep-(m,C,G)/d={d}"] = ob_steps_hbar_free(d)
        for disp in (False, True):
            tag = "displaced" if disp else "nondisplaced"
            obs[f"C14/hbar-free/threshold-args/{tag}/d={d}"] = ob_threshold_args(d, disp)
            obs[f"C14/hbar-free/density-matrix-args/{tag}/d={d}"] = ob_density_matrix_args(d, disp)
    for d in range(1, (2 if tier == "quick" else 3) + 1):
        obs[f"C14/hbar-free/purity/d={d}"] = ob_purity(d)
    return obs


def check(run):
    obs = obligations(run.tier)
    st.discharge(run, obs, functions=FUNCS)
    index_permutation_obligations(run)
    run.trust("vf/sympoly.py normal form; opaque atoms sqrt[q] are uninterpreted functions of the normal form of q")
    run.assume("IEEE doubles treated as reals")
    run.assume("shapes enumerated: d <= 3 quick, d <= 4 thorough, every ordered mode tuple; m, C, G, hbar, angles are unbounded symbols")
    run.assume("callees that receive only hbar-free arrays (click probabilities, density-matrix calculations, hafnian/torontonian kernels) have no other access to Config.hbar: they take no config argument")
    run.assume("displaced branch is analysed at a generic point (m != 0), non-displaced branch at m = 0")
    run.assume("fidelity, parity and phase-shifter expectation values use matrix inverses/eigenvalues: outside the polynomial domain, covered only by the bounded stand-in")
    from contracts import C14_bounded

    C14_bounded.check(run)


def replay(path):
    with open(path) as f:
        rep = json.load(f)
    name = rep["obligation"]
    obs = obligations("thorough")
    if name not in obs:
        print(f"unknown obligation {name}")
        return 3
    r, seed, values = st.run_numeric(obs[name], seeds=(rep.get("replay", {}).get("seed") or 1, 7, 11))
    print(f"replay {name}: max |lhs - rhs| on the real code (NumpyConnector) = {r:.3e} at seed {seed}")
    print(json.dumps(values, indent=1)[:1500])
    return 1 if r > 1e-9 else 0
