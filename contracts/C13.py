"""C13 - invalid programs are rejected up front; valid ones are never refused (DESIGN 5/C13).

Rejection half (deductive, on the real AST of api/simulator.py, api/mode.py, api/instruction.py):
  G  guard equivalence (pyvc/SMT): the condition under which each validation function raises,
     extracted from the real `if`, is equivalent to the rule in the property statement, for all
     values of the integers / booleans involved;
  D  dominance (cfg): on every path through execute_instructions the shots check and
     _validate_instructions precede _do_execute_instructions; validate() runs _validate_instructions;
     _validate_instructions runs the existence / modes / order checks; each check loops over ALL
     instructions without break;
  T  exception types (frames): every `raise` reachable before evolution, and every `raise` in an
     instruction's _validate, raises a subclass of PiquassoException.
Acceptance half and single-fault mutations: bounded stand-in (rtc).
"""
from __future__ import annotations

import ast
import json
import os

from vf import cfg as cfgmod
from vf import smt
from vf.common import REPO

SIMPY = "piquasso/api/simulator.py"


def _func(rel, qual):
    tree = ast.parse(open(os.path.join(REPO, rel)).read())
    return cfgmod.find_function(tree, qual)


# ---------------------------------------------------------------------------------- G
class Boolify(ast.NodeVisitor):
    """translate a Python boolean/integer expression into SMT; unknown sub-expressions become
    named atoms (uninterpreted Bool/Int constants keyed by their source text)"""

    def __init__(self, int_atoms, bool_atoms):
        self.int_atoms = int_atoms
        self.bool_atoms = bool_atoms
        self.decl = {}

    def atom(self, node, sort):
        key = ast.unparse(node)
        table = self.int_atoms if sort == "Int" else self.bool_atoms
        name = table.get(key)
        if name is None:
            raise KeyError(key)
        self.decl[name] = sort
        return name

    def b(self, n):
        if isinstance(n, ast.BoolOp):
            op = "and" if isinstance(n.op, ast.And) else "or"
            return f"({op} " + " ".join(self.b(v) for v in n.values) + ")"
        if isinstance(n, ast.UnaryOp) and isinstance(n.op, ast.Not):
            return f"(not {self.b(n.operand)})"
        if isinstance(n, ast.Compare):
            parts, left = [], n.left
            for op, right in zip(n.ops, n.comparators):
                if isinstance(op, (ast.Is, ast.IsNot)) and isinstance(right, ast.Constant) and right.value is None:
                    a = self.atom(ast.parse(f"{ast.unparse(left)} is None", mode="eval").body, "Bool")
                    parts.append(a if isinstance(op, ast.Is) else f"(not {a})")
                else:
                    sym = {ast.Eq: "=", ast.Lt: "<", ast.LtE: "<=", ast.Gt: ">", ast.GtE: ">="}.get(type(op))
                    if isinstance(op, ast.NotEq):
                        parts.append(f"(not (= {self.i(left)} {self.i(right)}))")
                    elif sym:
                        parts.append(f"({sym} {self.i(left)} {self.i(right)})")
                    else:
                        raise KeyError(ast.unparse(n))
                left = right
            return parts[0] if len(parts) == 1 else "(and " + " ".join(parts) + ")"
        return self.atom(n, "Bool")

    def i(self, n):
        if isinstance(n, ast.Constant) and isinstance(n.value, int) and not isinstance(n.value, bool):
            return str(n.value) if n.value >= 0 else f"(- {-n.value})"
        if isinstance(n, ast.BinOp) and isinstance(n.op, (ast.Add, ast.Sub)):
            return f"({'+' if isinstance(n.op, ast.Add) else '-'} {self.i(n.left)} {self.i(n.right)})"
        return self.atom(n, "Int")


def guard_equivalence(run, name, rel, qual, pick, spec_src, int_atoms, bool_atoms, extra_hyps=()):
    """pick(func) -> the ast.If whose body raises; its test must be equivalent to spec_src"""
    oname = f"C13/guard/{name}"
    try:
        fn = _func(rel, qual)
        node = pick(fn)
        if node is None:
            run.undecided_ob(oname, "pyvc", "guard-equivalence", "contract no longer binds: guard not found")
            return
        tr = Boolify(int_atoms, bool_atoms)
        got = tr.b(node.test if isinstance(node, ast.If) else node)
        want = tr.b(ast.parse(spec_src, mode="eval").body)
    except KeyError as e:
        run.undecided_ob(oname, "pyvc", "guard-equivalence", f"expression outside the contract vocabulary: {e}")
        return
    run.function(f"{rel}:{qual}", ast.unparse(fn))
    decls = "\n".join(f"(declare-fun {n} () {s})" for n, s in tr.decl.items())
    hyps = "\n".join(f"(assert {h})" for h in extra_hyps)
    r = smt.solve(f"{decls}\n{hyps}\n(assert (not (= {got} {want})))")
    if r.verdict == "unsat":
        run.discharged(oname, "pyvc", r.solver, r.seconds, sample={"code": ast.unparse(node.test if isinstance(node, ast.If) else node)[:160],
                                                                 "specification": spec_src})
    elif r.verdict == "sat":
        rep = bounded_single_faults()
        run.failed(oname, "pyvc", r.solver,
                   what=f"{qual} raises under `{ast.unparse(node.test if isinstance(node, ast.If) else node)[:120]}`, "
                        f"the rule is `{spec_src}`; they differ at {r.model}",
                   counterexample=r.model, replay={"kind": "single-fault"}, reproduced=bool(rep["failures"]),
                   observed={"bounded_failures": rep["failures"][:5]}, solver_output=r.output[:1000])
    else:
        run.undecided_ob(oname, "pyvc", r.solver, f"solver answered {r.verdict}")


def _raising_if(fn, exc):
    for n in ast.walk(fn):
        if isinstance(n, ast.If) and any(isinstance(b, ast.Raise) and exc in ast.unparse(b) for b in n.body):
            return n
    return None


def guards(run):
    guard_equivalence(
        run, "mode-out-of-range", SIMPY, "Simulator._validate_instruction_modes",
        lambda fn: _raising_if(fn, "InvalidModes") if not _is_distinctness_if(_raising_if(fn, "InvalidModes")) else _second_raising_if(fn),
        "mode < 0 or mode >= d", {"mode": "mode", "d": "d"}, {})
    guard_equivalence(
        run, "mid-circuit-measurement", SIMPY, "Simulator._validate_measurements_at_end",
        lambda fn: _raising_if(fn, "InvalidSimulation"),
        "is_measurement and index != len(instructions) - 1 and not allowed",
        {"index": "index", "len(instructions)": "n"},
        {"is_measurement": "is_meas", "isinstance(instruction, self._measurement_classes_allowed_mid_circuit)": "allowed",
         "allowed": "allowed"})
    guard_equivalence(
        run, "shots-positive-int-or-None", SIMPY, "Simulator.execute_instructions",
        lambda fn: _raising_if(fn, "InvalidParameter"),
        "not is_shots_positive_integer and not shots_is_none", {},
        {"is_shots_positive_integer": "pos", "shots is None": "none", "shots_is_none": "none"})
    # definition of is_shots_positive_integer
    oname = "C13/guard/shots-positive-int-definition"
    fn = _func(SIMPY, "Simulator.execute_instructions")
    a = next((s for s in fn.body if isinstance(s, ast.Assign) and ast.unparse(s.targets[0]) == "is_shots_positive_integer"), None)
    if a is not None and ast.unparse(a.value) == "isinstance(shots, int) and shots > 0":
        run.discharged(oname, "frames", "ast-shape", 0.0)
    else:
        run.failed(oname, "frames", "ast-shape", what="is_shots_positive_integer is not `isinstance(shots, int) and shots > 0`",
                   counterexample={"source": ast.unparse(a) if a else None}, replay={"kind": "single-fault"}, reproduced=False)
    guard_equivalence(
        run, "wrong-number-of-modes", "piquasso/api/instruction.py", "Instruction._validate_modes",
        lambda fn: _raising_if(fn, "InvalidProgram"),
        "not number_none and len(modes) != self.NUMBER_OF_MODES", {"len(modes)": "n", "self.NUMBER_OF_MODES": "k"},
        {"self.NUMBER_OF_MODES is None": "number_none", "number_none": "number_none"})
    guard_equivalence(
        run, "initial-state-d-mismatch", SIMPY, "Simulator._validate_initial_state",
        lambda fn: [n for n in ast.walk(fn) if isinstance(n, ast.If)][1] if len([n for n in ast.walk(fn) if isinstance(n, ast.If)]) > 1 else None,
        "initial_state.d != d", {"initial_state.d": "sd", "d": "d"}, {})
    guard_equivalence(
        run, "initial-state-type", SIMPY, "Simulator._validate_initial_state",
        lambda fn: [n for n in ast.walk(fn) if isinstance(n, ast.If)][0],
        "not isinstance(initial_state, self._state_class)", {}, {"isinstance(initial_state, self._state_class)": "is_state"})
    guard_equivalence(
        run, "shots-None-needs-support", SIMPY, "Simulator._apply_instruction_to_branches",
        lambda fn: _raising_if(fn, "InvalidParameter"),
        "is_meas and shots is None and not supported", {},
        {"isinstance(instruction, Measurement)": "is_meas", "is_meas": "is_meas", "shots is None": "none",
         "isinstance(instruction, self._measurement_classes_allowed_with_shots_none)": "supported", "supported": "supported"})
    guard_equivalence(
        run, "negative-mode-in-Q", "piquasso/api/mode.py", "Q.__init__",
        lambda fn: [n for n in ast.walk(fn) if isinstance(n, ast.If)][0],
        "not is_all and any_negative", {}, {"is_all": "is_all", "any((mode < 0 for mode in modes))": "any_negative", "any_negative": "any_negative"})
    guard_equivalence(
        run, "repeated-mode-in-Q", "piquasso/api/mode.py", "Q.__init__",
        lambda fn: [n for n in ast.walk(fn) if isinstance(n, ast.If)][1],
        "not is_all and not distinct", {}, {"is_all": "is_all", "self._is_distinct(modes)": "distinct", "distinct": "distinct"})


def lazy_validation(run):
    """rule: parameter values for which the documentation promises an error are rejected before
    any evolution.  Contract: the call instruction._validate(...) is made for every instruction
    before _do_execute_instructions starts (i.e. from the _validate_instructions call graph)."""
    oname = "C13/lazy-parameter-validation"
    pre = "".join(ast.unparse(_func(SIMPY, "Simulator." + f)) for f in (
        "_validate_instructions", "_validate_instruction_existence", "_validate_instruction_modes", "_validate_instruction_order",
        "_validate_preparations_at_beginning", "_validate_measurements_at_end", "execute_instructions"))
    inside = ast.unparse(_func(SIMPY, "Simulator._apply_instruction_to_branches"))
    if "._validate(" in pre:
        run.discharged(oname, "frames", "ast-shape", 0.0)
        return
    rep = replay_lazy_validation()
    run.failed(oname, "frames", "ast-shape",
               what="instruction._validate(...) is only called inside the evolution loop (_apply_instruction_to_branches): "
                    "an invalid parameter is reported after earlier instructions have been simulated"
                    + ("" if "._validate(" in inside else " - and not even there"),
               counterexample=rep, replay={"kind": "lazy-validation"}, reproduced=rep.get("reproduced", False), observed=rep)


def replay_lazy_validation():
    import numpy as np
    import piquasso as pq
    from piquasso.api.simulator import Simulator

    n = {"steps": 0}
    real = Simulator._get_simulation_step

    def counting(self, instruction):
        step = real(self, instruction)

        def w(*a, **k):
            n["steps"] += 1
            return step(*a, **k)
        return w

    Simulator._get_simulation_step = counting
    try:
        sim = pq.GaussianSimulator(d=2)
        try:
            sim.execute_instructions([pq.Vacuum(), pq.Squeezing(r=0.1).on_modes(0),
                                      pq.Interferometer(np.array([[1.0, 1.0], [0.0, 1.0]])).on_modes(0, 1)])
            out = {"outcome": "accepted", "steps_before_error": n["steps"]}
        except pq.api.exceptions.PiquassoException as e:
            out = {"outcome": f"rejected with {type(e).__name__}", "steps_before_error": n["steps"]}
    finally:
        Simulator._get_simulation_step = real
    out["reproduced"] = out["steps_before_error"] > 0 or out["outcome"] == "accepted"
    return out


def _is_distinctness_if(n):
    return n is not None and "set(" in ast.unparse(n.test)


def _second_raising_if(fn):
    ifs = [n for n in ast.walk(fn) if isinstance(n, ast.If) and any(isinstance(b, ast.Raise) for b in n.body)]
    for n in ifs:
        if not _is_distinctness_if(n):
            return n
    return None


# ---------------------------------------------------------------------------------- D
def dominance(run):
    fn = _func(SIMPY, "Simulator.execute_instructions")
    run.function(f"{SIMPY}:Simulator.execute_instructions", ast.unparse(fn))
    g = cfgmod.CFG(fn)

    def is_call(n, text):
        return n.stmt is not None and text in n.text() and n.kind in ("stmt", "return", "test")

    evolve = [n for n in g.nodes if n.stmt is not None and "_do_execute_instructions(" in ast.unparse(n.stmt) and n.kind in ("stmt", "return")]
    required = {
        "shots-check": lambda n: n.kind == "test" and "is_shots_positive_integer" in n.label,
        "_validate_instructions": lambda n: n.stmt is not None and n.kind == "stmt" and "self._validate_instructions(instructions, d)" in ast.unparse(n.stmt),
        "_try_to_infer_d": lambda n: n.stmt is not None and n.kind == "stmt" and "_try_to_infer_d_from_instructions(instructions)" in ast.unparse(n.stmt),
    }
    for rname, pred in required.items():
        oname = f"C13/dominance/execute_instructions/{rname}-precedes-evolution"
        if not evolve:
            run.undecided_ob(oname, "frames", "cfg-dominance", "no call of _do_execute_instructions found")
            continue
        # a path entry -> evolve avoiding every node satisfying pred?
        seen, stack, escaped = set(), [g.entry], False
        while stack:
            n = stack.pop()
            if n is None or n.id in seen:
                continue
            seen.add(n.id)
            if pred(n):
                continue
            if n in evolve:
                escaped = True
                break
            stack.extend(n.succ)
        if not escaped:
            run.discharged(oname, "frames", "cfg-dominance", 0.0)
        else:
            rep = bounded_single_faults()
            run.failed(oname, "frames", "cfg-dominance", what=f"a path reaches _do_execute_instructions without passing {rname}",
                       counterexample={"missing": rname}, replay={"kind": "single-fault"}, reproduced=bool(rep["failures"]),
                       observed={"bounded_failures": rep["failures"][:5]})
    # initial_state validated when given
    oname = "C13/dominance/execute_instructions/initial-state-validated-before-copy"
    src = ast.unparse(fn)
    ok = "if initial_state is not None:\n        self._validate_initial_state(initial_state, d)\n        state = initial_state.copy()" in src
    (run.discharged(oname, "frames", "ast-shape", 0.0) if ok else
     run.failed(oname, "frames", "ast-shape", what="initial_state is used without _validate_initial_state", counterexample={},
                replay={"kind": "single-fault"}, reproduced=False))
    # validate(): runs the same checks
    v = _func(SIMPY, "Simulator.validate")
    vi = _func(SIMPY, "Simulator._validate_instructions")
    order = _func(SIMPY, "Simulator._validate_instruction_order")
    checks = {
        "validate-runs-_validate_instructions": "self._validate_instructions(program.instructions, d)" in ast.unparse(v),
        "_validate_instructions-runs-existence-modes-order": [ast.unparse(s) for s in vi.body] == [
            "self._validate_instruction_existence(instructions)", "self._validate_instruction_modes(instructions, d)",
            "self._validate_instruction_order(instructions)"],
        "_validate_instruction_order-runs-both": [ast.unparse(s) for s in order.body] == [
            "self._validate_preparations_at_beginning(instructions)", "self._validate_measurements_at_end(instructions)"],
    }
    for fname in ("_validate_instruction_existence", "_validate_instruction_modes", "_validate_preparations_at_beginning",
                  "_validate_measurements_at_end"):
        f = _func(SIMPY, "Simulator." + fname)
        loops = [s for s in f.body if isinstance(s, ast.For)]
        it = ast.unparse(loops[0].iter) if loops else ""
        no_exit = not any(isinstance(x, (ast.Break, ast.Return)) for x in ast.walk(f))
        checks[f"{fname}-visits-every-instruction"] = bool(loops) and it in ("instructions", "enumerate(instructions)") and no_exit \
            and len(loops) == 1
    for name, ok in checks.items():
        oname = f"C13/dominance/{name}"
        if ok:
            run.discharged(oname, "frames", "ast-shape", 0.0)
        else:
            rep = bounded_single_faults()
            run.failed(oname, "frames", "ast-shape", what=f"validation structure changed: {name}", counterexample={},
                       replay={"kind": "single-fault"}, reproduced=bool(rep["failures"]), observed={"bounded_failures": rep["failures"][:5]})
    # preparations: the rule `a non-preparation precedes a preparation`
    p = _func(SIMPY, "Simulator._validate_preparations_at_beginning")
    want = ("for index, instruction in enumerate(instructions):\n    if isinstance(instruction, Preparation):\n"
            "        previous_instuctions = instructions[:index]\n        if any((not isinstance(previous_instruction, Preparation) "
            "for previous_instruction in previous_instuctions)):\n            raise InvalidSimulation(")
    oname = "C13/guard/preparation-after-non-preparation"
    if ast.unparse(p.body[0]).startswith(want):
        run.discharged(oname, "frames", "ast-shape", 0.0)
    else:
        rep = bounded_single_faults()
        run.failed(oname, "frames", "ast-shape", what="_validate_preparations_at_beginning no longer has the contracted form",
                   counterexample={"source": ast.unparse(p)[:400]}, replay={"kind": "single-fault"},
                   reproduced=bool(rep["failures"]), observed={"bounded_failures": rep["failures"][:5]})
    # repeated modes are rejected by the simulator's own validation (on_modes / Program(instructions=...) bypass Q)
    m = _func(SIMPY, "Simulator._validate_instruction_modes")
    oname = "C13/guard/repeated-mode-rejected-by-validate_instruction_modes"
    has = any(isinstance(n, ast.If) and "set(" in ast.unparse(n.test) and any(isinstance(b, ast.Raise) for b in n.body)
              for n in ast.walk(m))
    if has:
        run.discharged(oname, "frames", "ast-shape", 0.0)
    else:
        rep = replay_repeated_modes()
        run.failed(oname, "frames", "ast-shape",
                   what="no validation function checks that an instruction's modes are distinct: modes set through on_modes / "
                        "Program(instructions=...) / from_dict bypass Q and a repeated mode is accepted or fails mid-run",
                   counterexample=rep, replay={"kind": "repeated-modes"}, reproduced=rep.get("reproduced", False), observed=rep)


def per_branch_validation(run):
    """in Simulator._apply_instruction_to_branches every path from the head of the loop over the branches to the call of the
    simulation step passes the call instruction._validate(...) - unless Config.validate is off: outcome-dependent parameters
    differ from branch to branch, so each branch needs its own check"""
    oname = "C13/dominance/_apply_instruction_to_branches/parameters-validated-on-every-branch"
    fn = _func(SIMPY, "Simulator._apply_instruction_to_branches")
    g = cfgmod.CFG(fn)
    loops = [n for n in ast.walk(fn) if isinstance(n, ast.For) and ast.unparse(n.iter) == "branches"]
    steps = [n for n in g.nodes if n.stmt is not None and n.kind in ("stmt", "return") and "simulation_step(" in ast.unparse(n.stmt)]
    if len(loops) != 1 or not steps:
        run.undecided_ob(oname, "frames", "cfg-dominance", "the loop over branches / the call of the simulation step was not found")
        return
    loop = loops[0]
    heads = [n for n in g.nodes if n.kind == "iter" and n.stmt is loop.iter]
    if not heads:
        run.undecided_ob(oname, "frames", "cfg-dominance", "loop head not found in the CFG")
        return

    def validates(n):
        if n.stmt is not None and n.kind == "stmt" and "instruction._validate(" in ast.unparse(n.stmt):
            return True
        # the only accepted way around the call: the test `self.config.validate` (whose true-branch starts with the call)
        if n.kind == "test" and n.label == "if self.config.validate" and n.succ:
            first = n.succ[0]
            return first.stmt is not None and first.kind == "stmt" and "instruction._validate(" in ast.unparse(first.stmt)
        return False

    seen, stack, escaped = set(), [h.succ[0] for h in heads if h.succ], None
    while stack:
        n = stack.pop()
        if n is None or n.id in seen:
            continue
        seen.add(n.id)
        if validates(n):
            continue
        if n in steps:
            escaped = n
            break
        if n in heads:
            continue
        stack.extend(n.succ)
    if escaped is None:
        run.discharged(oname, "frames", "cfg-dominance", 0.0, function=f"{SIMPY}:Simulator._apply_instruction_to_branches")
    else:
        rep = replay_per_branch_validation()
        run.failed(oname, "frames", "cfg-dominance",
                   what="a path from the head of the loop over branches reaches the simulation step without instruction._validate(...) "
                        "(and without the test `self.config.validate`): a branch can run with unchecked outcome-dependent parameters",
                   counterexample={"line": getattr(escaped.stmt, "lineno", None)}, replay={"kind": "per-branch-validation"},
                   reproduced=rep.get("reproduced", False), observed=rep)


def replay_per_branch_validation():
    """UniformLoss(transmissivity = f(outcome)) after a mid-circuit measurement, f out of [0, 1] on exactly one outcome:
    the program must be refused whatever the order of the branches"""
    import numpy as np
    import piquasso as pq

    bad = []
    for expr in ("1.0 - 0.75 * x[0]", "0.75 * x[0] - 0.5"):
        for shots in (None, 200):
            sim = pq.PassiveSimulator(d=3, config=pq.Config(seed_sequence=7))
            prog = [pq.NumberState([1, 1, 0]), pq.Beamsplitter(theta=np.pi / 5).on_modes(0, 1),
                    pq.ParticleNumberMeasurement().on_modes(0), pq.UniformLoss(transmissivity=expr)]
            try:
                sim.execute_instructions(prog, shots=shots)
                bad.append({"transmissivity": expr, "shots": shots, "observed": "a Result was returned"})
            except pq.api.exceptions.PiquassoException:
                pass
            except Exception as e:     # noqa: BLE001
                bad.append({"transmissivity": expr, "shots": shots, "observed": f"{type(e).__name__}: {e}"[:160]})
    return {"accepted": bad, "reproduced": bool(bad)}


def replay_repeated_modes():
    import piquasso as pq
    from piquasso.api.exceptions import PiquassoException

    out = {}
    for name, mk, prep in (("GaussianSimulator", lambda: pq.GaussianSimulator(d=2), [pq.Vacuum()]),
                           ("SamplingSimulator", lambda: pq.SamplingSimulator(d=2), [pq.StateVector([1, 0])]),
                           ("PureFockSimulator", lambda: pq.PureFockSimulator(d=2, config=pq.Config(cutoff=3)), [pq.StateVector([1, 0])])):
        prog = pq.Program(instructions=prep + [pq.Beamsplitter(theta=0.3).on_modes(1, 1)])
        try:
            mk().execute(prog)
            out[name] = "accepted"
        except PiquassoException as e:
            out[name] = f"rejected with {type(e).__name__}"
        except Exception as e:
            out[name] = f"raised {type(e).__name__} (not a Piquasso exception)"
    out["reproduced"] = any(not v.startswith("rejected") for v in out.values() if isinstance(v, str))
    return out


# ---------------------------------------------------------------------------------- T
def exception_types(run):
    from piquasso.api import exceptions as E

    ok_names = {n for n, c in vars(E).items() if isinstance(c, type) and issubclass(c, E.PiquassoException)}
    sites = []
    # (a) everything that runs before evolution
    for qual in ("Simulator.execute_instructions", "Simulator._try_to_infer_d_from_instructions", "Simulator._validate_instruction_modes",
                 "Simulator._get_simulation_step", "Simulator._validate_preparations_at_beginning", "Simulator._validate_measurements_at_end",
                 "Simulator._validate_initial_state", "Simulator._apply_instruction_to_branches", "Simulator._do_execute_instructions",
                 "Simulator.create_initial_state"):
        fn = _func(SIMPY, qual)
        for r in ast.walk(fn):
            if isinstance(r, ast.Raise) and r.exc is not None:
                nm = ast.unparse(r.exc.func if isinstance(r.exc, ast.Call) else r.exc)
                sites.append((f"{SIMPY}:{qual}", r.lineno, nm))
    for rel, quals in (("piquasso/api/mode.py", ["Q.__init__"]), ("piquasso/api/instruction.py", ["Instruction._validate_modes", "Instruction._resolve_params", "Instruction._is_condition_met", "Instruction.when"])):
        for qual in quals:
            fn = _func(rel, qual)
            for r in ast.walk(fn):
                if isinstance(r, ast.Raise) and r.exc is not None:
                    nm = ast.unparse(r.exc.func if isinstance(r.exc, ast.Call) else r.exc)
                    sites.append((f"{rel}:{qual}", r.lineno, nm))
    # (b) every instruction's _validate
    for rel in ("piquasso/instructions/gates.py", "piquasso/instructions/preparations.py", "piquasso/instructions/measurements.py",
                "piquasso/instructions/channels.py", "piquasso/fermionic/instructions.py"):
        p = os.path.join(REPO, rel)
        if not os.path.exists(p):
            continue
        tree = ast.parse(open(p).read())
        for cls in [n for n in tree.body if isinstance(n, ast.ClassDef)]:
            for fn in [n for n in cls.body if isinstance(n, ast.FunctionDef) and n.name in ("_validate", "__init__")]:
                for r in ast.walk(fn):
                    if isinstance(r, ast.Raise) and r.exc is not None:
                        nm = ast.unparse(r.exc.func if isinstance(r.exc, ast.Call) else r.exc)
                        sites.append((f"{rel}:{cls.name}.{fn.name}", r.lineno, nm))
    by_fn = {}
    for fid, line, nm in sites:
        by_fn.setdefault(fid, []).append((line, nm))
    for fid, rs in sorted(by_fn.items()):
        bad = [(l, n) for l, n in rs if n not in ok_names]
        oname = f"C13/exception-type/{fid}"
        if not bad:
            run.discharged(oname, "frames", "raise-type-scan", 0.0, function=fid)
        else:
            run.failed(oname, "frames", "raise-type-scan",
                       what=f"{fid} raises {sorted({n for _, n in bad})} (line {bad[0][0]}), which is not a Piquasso exception",
                       counterexample={"raises": bad}, replay={"kind": "exception-type", "function": fid},
                       reproduced=replay_exception_type(fid), observed=None)
    return len(sites)


def replay_exception_type(fid):
    import numpy as np
    import piquasso as pq
    from piquasso.api.exceptions import PiquassoException

    try:
        if "ImperfectParticleNumberMeasurement" in fid:
            sim = pq.SamplingSimulator(d=2)
            sim.execute_instructions([pq.StateVector([1, 0]), pq.ImperfectParticleNumberMeasurement(
                detector_efficiency_matrix=np.array([[1.0, 0.5], [0.2, 0.5]]))], shots=2)
        elif "_do_execute_instructions" in fid:
            sim = pq.PureFockSimulator(d=2, config=pq.Config(cutoff=4))
            sim.execute_instructions([pq.StateVector([1, 0]), pq.ParticleNumberMeasurement().on_modes(0),
                                      pq.Phaseshifter(phi=0.1).on_modes(0)], shots=1)
        else:
            return False
    except PiquassoException:
        return False
    except Exception:
        return True
    return False


# ---------------------------------------------------------------------------------- bounded
def bounded_single_faults():
    """one violated rule at a time, every simulator: expect a PiquassoException and no step run"""
    import numpy as np
    import piquasso as pq
    from piquasso.api.exceptions import PiquassoException
    from piquasso.api.simulator import Simulator

    steps_run = {"n": 0}
    real = Simulator._get_simulation_step

    def counting(self, instruction):
        step = real(self, instruction)

        def wrapped(*a, **k):
            steps_run["n"] += 1
            return step(*a, **k)
        return wrapped

    sims = {
        "GaussianSimulator": (lambda: pq.GaussianSimulator(d=3), [pq.Vacuum()], pq.Squeezing(r=0.1)),
        "PureFockSimulator": (lambda: pq.PureFockSimulator(d=3, config=pq.Config(cutoff=3)), [pq.StateVector([1, 0, 0])], pq.Phaseshifter(phi=0.1)),
        "FockSimulator": (lambda: pq.FockSimulator(d=3, config=pq.Config(cutoff=3)), [pq.DensityMatrix(ket=(1, 0, 0), bra=(1, 0, 0))], pq.Phaseshifter(phi=0.1)),
        "SamplingSimulator": (lambda: pq.SamplingSimulator(d=3), [pq.StateVector([1, 0, 0])], pq.Phaseshifter(phi=0.1)),
    }
    failures, evaluations = [], 0
    Simulator._get_simulation_step = counting
    try:
        for sname, (mk, prep, gate1) in sims.items():
            def faults():
                yield "mode-negative", prep + [gate1.copy().on_modes(-1)], {}
                yield "mode-too-large", prep + [gate1.copy().on_modes(3)], {}
                yield "mode-equals-d-after-valid", prep + [gate1.copy().on_modes(0), pq.Beamsplitter(theta=0.1).on_modes(0, 3)], {}
                yield "repeated-mode", prep + [pq.Beamsplitter(theta=0.1).on_modes(1, 1)], {}
                yield "preparation-after-gate", prep + [gate1.copy().on_modes(0)] + [p.copy() for p in prep], {}
                yield "unsupported-instruction", prep + [pq.Instruction()], {}
                yield "measurement-not-last", prep + [pq.HeterodyneMeasurement().on_modes(0) if sname != "GaussianSimulator"
                                                      else pq.ParticleNumberMeasurement().on_modes(0), gate1.copy().on_modes(1)], {}
                yield "shots-zero", prep + [gate1.copy().on_modes(0)], {"shots": 0}
                yield "shots-negative", prep + [gate1.copy().on_modes(0)], {"shots": -3}
                yield "shots-float", prep + [gate1.copy().on_modes(0)], {"shots": 2.0}
                yield "initial-state-wrong-d", [gate1.copy().on_modes(0)], {"initial_state": "wrong-d"}
            for fname, ins, kw in faults():
                steps_run["n"] = 0
                kw = dict(kw)
                try:
                    sim = mk()
                    if kw.get("initial_state") == "wrong-d":
                        kw["initial_state"] = type(sim)(d=2, config=sim.config).create_initial_state()
                    sim.execute_instructions(ins, **kw)
                    outcome = "accepted"
                except PiquassoException as e:
                    outcome = "rejected" if steps_run["n"] == 0 else f"rejected after {steps_run['n']} simulation step(s)"
                except pq.api.exceptions.PiquassoException:
                    outcome = "rejected"
                except Exception as e:
                    outcome = f"raised {type(e).__name__} after {steps_run['n']} step(s)"
                evaluations += 1
                if outcome != "rejected":
                    failures.append({"simulator": sname, "fault": fname, "outcome": outcome})
    finally:
        Simulator._get_simulation_step = real
    return {"evaluations": evaluations, "failures": failures}


def bounded_acceptance(run):
    """valid programs x cutoffs 1..4: no exception on any branch (shots=None visits every branch)"""
    import numpy as np
    import piquasso as pq

    fails, ev = [], 0
    cutoffs = (1, 2, 3, 4)
    for cutoff in cutoffs:
        cases = {
            "PureFockSimulator/gates": (lambda: pq.PureFockSimulator(d=2, config=pq.Config(cutoff=cutoff)),
                                        [pq.Vacuum(), pq.Beamsplitter(theta=0.3).on_modes(0, 1), pq.Phaseshifter(phi=0.2).on_modes(0)], 1),
            "FockSimulator/gates": (lambda: pq.FockSimulator(d=2, config=pq.Config(cutoff=cutoff)),
                                    [pq.Vacuum(), pq.Beamsplitter(theta=0.3).on_modes(0, 1), pq.Phaseshifter(phi=0.2).on_modes(0)], 1),
            "GaussianSimulator/gates": (lambda: pq.GaussianSimulator(d=2, config=pq.Config(cutoff=cutoff)),
                                        [pq.Vacuum(), pq.Squeezing(r=0.1).on_modes(0), pq.Beamsplitter(theta=0.3).on_modes(0, 1)], 1),
            "PureFockSimulator/measure-all-branches": (lambda: pq.PureFockSimulator(d=2, config=pq.Config(cutoff=max(cutoff, 3))),
                                                       [pq.StateVector([1, 1]), pq.Beamsplitter(theta=0.3).on_modes(0, 1),
                                                        pq.ParticleNumberMeasurement().on_modes(0), pq.Phaseshifter(phi=0.2).on_modes(1)], None),
        }
        for name, (mk, ins, shots) in cases.items():
            ev += 1
            try:
                mk().execute_instructions([i.copy() for i in ins], shots=shots)
            except Exception as e:
                fails.append({"case": name, "cutoff": cutoff, "error": f"{type(e).__name__}: {e}"[:160]})
    return ev, fails


def _check_per_branch(run):
    per_branch_validation(run)


def check(run):
    guards(run)
    dominance(run)
    per_branch_validation(run)
    lazy_validation(run)
    n_sites = exception_types(run)
    run.notes.append(f"{n_sites} raise sites scanned")
    rep = bounded_single_faults()
    groups = {}
    for f in rep["failures"]:
        groups.setdefault(f["fault"], []).append(f)
    for fault, fs in groups.items():
        run.failed(f"C13/bounded/single-fault/{fault}", "rtc", "fault-enumeration",
                   what=f"fault `{fault}` is not rejected up front: {fs[:3]}", counterexample=fs[0],
                   replay={"kind": "single-fault", "fault": fault}, reproduced=True, observed={"cases": fs})
    run.bounded_result("C13/bounded/single-fault-mutations-of-valid-programs", domain="11 rule violations x 4 simulators; "
                       "contract: PiquassoException raised and zero simulation steps run (steps counted through the real instruction map)",
                       bound="one fault at a time, d=3", evaluations=rep["evaluations"], distinct=rep["evaluations"],
                       failures=len(rep["failures"]))
    ev, fails = bounded_acceptance(run)
    by = {}
    for f in fails:
        sig = "numba-cannot-type-empty-index-lists" if "fingerprint of empty list" in f["error"] else f["error"].split(":")[0]
        by.setdefault(f["case"].split("/")[0] + "/" + sig, []).append(f)
    for key, fs in by.items():
        run.failed(f"C13/bounded/valid-program-accepted/{key}", "rtc", "enumeration",
                   what=f"a valid program is refused: {fs[0]}", counterexample=fs[0], replay={"kind": "acceptance"},
                   reproduced=True, observed={"cases": fs})
    run.bounded_result("C13/bounded/valid-programs-accepted-for-every-cutoff", domain="3 simulators x cutoffs 1..4 + every "
                       "measurement branch (shots=None)", bound="d=2", evaluations=ev, distinct=ev, failures=len(fails))
    run.trust("vf/cfg.py CFG; z3 on the guard equivalences")
    run.assume("isinstance / any(...) / _is_distinct sub-expressions are atoms of the guard equivalences (their meaning is Python's)")
    run.assume("parameter validation of each instruction (`_validate`) runs lazily, per instruction, inside the evolution loop: "
               "the rule `promised parameter errors before any evolution` is NOT provable on this tree (known finding)")
    run.assume("acceptance half (valid programs never refused) is total correctness of numeric code: bounded only")


def replay(path):
    import json as _json
    with open(path) as _f:
        _r = (_json.load(_f).get("replay") or {})
    if _r.get("kind") == "per-branch-validation":
        out = replay_per_branch_validation()
        print(out)
        return 1 if out["reproduced"] else 0
    return _replay_rest(path)


def _replay_rest(path):
    with open(path) as f:
        rep = json.load(f)
    kind = (rep.get("replay") or {}).get("kind")
    if kind == "repeated-modes":
        out = replay_repeated_modes()
        print(out)
        return 1 if out["reproduced"] else 0
    if kind == "lazy-validation":
        out = replay_lazy_validation()
        print(out)
        return 1 if out["reproduced"] else 0
    if kind == "exception-type":
        r = replay_exception_type((rep.get("replay") or {}).get("function", ""))
        print("reproduced" if r else "not reproduced")
        return 1 if r else 0
    out = bounded_single_faults()
    print(json.dumps(out["failures"][:10], indent=1))
    return 1 if out["failures"] else 0
