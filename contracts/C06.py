"""C06 - Fock-basis enumeration and index functions are mutually inverse (DESIGN 5/C06).

Engine: pyvc (verification conditions from the real source, discharged by z3/cvc5) with Lean
lemmas for the binomial identities; bounded exhaustive cross-check as engine/spec validation."""
from __future__ import annotations

import json

from contracts import C06_int, C06_bounded


def check(run):
    C06_int.check(run)
    C06_int.check_transformations(run)
    from contracts import C06_fermi

    C06_fermi.check(run)
    from contracts import C06_enum

    C06_enum.check(run)
    try:
        from vf import lean

        lean.check_lemmas(run, C06_int.SPEC)
    except ImportError:
        run.notes.append("Lean lemma file not checked in this run (vf/lean.py missing)")
    C06_bounded.check(run)
    run.trust("vf/pyvc.py VC generator (forward symbolic execution, loops cut by invariants, calls by contracts)")
    run.trust("z3 / cvc5 (unsat answers)")
    run.assume("numba compiles the Python text faithfully up to integer width; width is covered by the discharged int64/int32 range obligations")
    run.assume("decorators, annotations and docstrings are dropped by the extraction; nothing else")
    run.assume("vectorised functions (arr_comb, get_index_in_fock_(sub)space_array) are verified on their element-wise lifting "
               "(vf/lift.py rules R1-R8, applied mechanically to the real source on every run): one generic element, shapes and "
               "broadcasting dropped, every array temporary must fit int64 and every stored value the dtype of its array")
    run.assume("spec functions S and RK are defined by their unfold equations (recursive definitions); C by the Lean lemmas named in trusted_base")
    run.assume("bosonic enumeration: partitions(boxes, particles) is verified for the default out=None (mechanical specialisation); "
               "nb_get_fock_space_basis hands partitions a slice view of its result array as `out` - that the rows written through the "
               "view are rows current_row.. of the result is numpy's slicing semantics (assumed); sector offsets are proved")
    run.assume("fermionic enumeration: successor step (rank + 1, sector change), rank of the first vector = 0 and the dimension sums are "
               "proved, and so are the two conversions occupation vector <-> first-quantised form (_to_first_quantized lists exactly the occupied "
               "modes in increasing order, _to_second_quantized sets exactly the listed modes); the induction over get_fock_space_basis "
               "(one successor call per row, rows addressed through numpy row views) is a stated argument over these contracts and is "
               "evaluated by the bounded stand-in")
    run.assume("pre-conditions state the property's own range: every partial sum / partial index / binomial term fits 32 bits")


def replay(path):
    with open(path) as f:
        rep = json.load(f)
    print(json.dumps({k: rep.get(k) for k in ("obligation", "what", "counterexample")}, indent=1)[:3000])
    from vf.common import Run

    r = Run("C06", "quick", 0)
    fails = C06_bounded.check(r)
    return 1 if fails else 0
