"""Dynamic side of C12: deep snapshots of caller-owned objects and line-level fault injection
on the REAL code (replay of frame counterexamples; also run as a bounded stand-in)."""
from __future__ import annotations

import os
import random
import sys

import numpy as np


class InjectedFault(Exception):
    pass


def _freeze(v):
    if isinstance(v, np.ndarray):
        return ("ndarray", v.dtype.str, v.shape, v.tobytes())
    if isinstance(v, dict):
        return ("dict", tuple((k, _freeze(x)) for k, x in v.items()))
    if isinstance(v, (list, tuple)):
        return (type(v).__name__, tuple(_freeze(x) for x in v))
    if callable(v):
        return ("callable", id(v))
    try:
        hash(v)
        return ("val", type(v).__name__, repr(v))
    except TypeError:
        return ("obj", repr(v))


def snapshot_instruction(i):
    return {
        "type": type(i).__name__,
        "modes": _freeze(i.modes),
        "params": _freeze(i._params),
        "params_identity": id(i._params),
        "unresolved": _freeze(dict((k, id(v)) for k, v in i._unresolved_params.items())),
        "condition": id(i._condition) if i._condition is not None else None,
    }


def snapshot_config(c):
    return {k: _freeze(v) for k, v in vars(c).items() if k != "rng"} | {
        "rng_state": _freeze(c.rng.bit_generator.state["state"]) if hasattr(c, "rng") else None}


def snapshot_state(s):
    if s is None:
        return None
    out = {}
    for k, v in vars(s).items():
        if k == "_config":
            out[k] = snapshot_config(v)
        elif k == "_connector":
            continue
        else:
            out[k] = _freeze(v)
    return out


def snapshot(program, initial_state=None, config=None):
    return {
        "n_instructions": len(program.instructions),
        "ids": [id(i) for i in program.instructions],
        "instructions": [snapshot_instruction(i) for i in program.instructions],
        "initial_state": snapshot_state(initial_state),
        "config": snapshot_config(config) if config is not None else None,
    }


def diff(a, b, path=""):
    """first difference between two snapshots (or None)"""
    if type(a) != type(b):
        return f"{path}: type {type(a).__name__} -> {type(b).__name__}"
    if isinstance(a, dict):
        for k in a:
            if k not in b:
                return f"{path}.{k}: removed"
            d = diff(a[k], b[k], f"{path}.{k}")
            if d:
                return d
        for k in b:
            if k not in a:
                return f"{path}.{k}: added"
        return None
    if isinstance(a, (list, tuple)):
        if len(a) != len(b):
            return f"{path}: length {len(a)} -> {len(b)}"
        for i, (x, y) in enumerate(zip(a, b)):
            d = diff(x, y, f"{path}[{i}]")
            if d:
                return d
        return None
    if a != b:
        return f"{path}: {str(a)[:80]} -> {str(b)[:80]}"
    return None


# ------------------------------------------------------------------------------ scenarios
def scenarios():
    """name -> thunk returning (simulator, program, shots, initial_state, user_config)"""
    import piquasso as pq

    out = {}

    def adaptive_fock(sim_cls):
        def mk():
            cfg = pq.Config(cutoff=5, seed_sequence=7)
            program = pq.Program(instructions=[
                pq.NumberState([0, 2, 0]) * np.sqrt(1 / 2),
                pq.NumberState([2, 0, 0]) * np.sqrt(1 / 2),
                pq.Beamsplitter(theta=0.3, phi=0.2).on_modes(2, 0),
                pq.ParticleNumberMeasurement().on_modes(1),
                pq.Phaseshifter(phi=lambda x: 0.1 * x[-1]).on_modes(2),
                pq.Squeezing(r="0.05 * x[0]").on_modes(0).when("x[-1] == 2"),
                pq.Beamsplitter(theta=0.4).on_modes(2, 0).when(lambda x: x[0] >= 0),
                pq.ParticleNumberMeasurement().on_modes(2),
            ])
            return sim_cls(d=3, config=cfg), program, 6, None, cfg
        return mk

    out["adaptive/PureFockSimulator"] = adaptive_fock(pq.PureFockSimulator)

    def gaussian():
        cfg = pq.Config(seed_sequence=3, hbar=1.5)
        U = np.array([[0.6, 0.8], [-0.8, 0.6]], dtype=complex)
        program = pq.Program(instructions=[
            pq.Vacuum(),
            pq.Squeezing(r=0.2, phi=0.1).on_modes(1),
            pq.Interferometer(U).on_modes(2, 0),
            pq.Displacement(r=0.3, phi=0.5).on_modes(0),
            pq.GaussianTransform(passive=np.cosh(0.2) * np.identity(1), active=np.sinh(0.2) * np.identity(1)).on_modes(1),
            pq.HomodyneMeasurement().on_modes(1),
        ])
        sim = pq.GaussianSimulator(d=3, config=cfg)
        init = sim.create_initial_state()
        return sim, program, 4, init, cfg

    out["matrix-params+initial_state/GaussianSimulator"] = gaussian

    def sampling():
        cfg = pq.Config(seed_sequence=11)
        U = np.array([[0.6, 0.8, 0], [-0.8, 0.6, 0], [0, 0, 1]], dtype=complex)
        program = pq.Program(instructions=[
            pq.StateVector([1, 1, 0]),
            pq.Interferometer(U),
            pq.Beamsplitter(theta=0.7).on_modes(2, 1),
            pq.ParticleNumberMeasurement(),
        ])
        return pq.SamplingSimulator(d=3, config=cfg), program, 5, None, cfg

    out["interferometer/SamplingSimulator"] = sampling

    def general_fock():
        cfg = pq.Config(cutoff=4, seed_sequence=5)
        program = pq.Program(instructions=[
            pq.DensityMatrix(ket=(1, 0), bra=(1, 0)),
            pq.Beamsplitter(theta=0.5).on_modes(1, 0),
            pq.Kerr(xi=0.1).on_modes(0),
            pq.ParticleNumberMeasurement().on_modes(0),
            pq.Phaseshifter(phi=lambda x: 0.2 * x[0]).on_modes(1),
        ])
        return pq.FockSimulator(d=2, config=cfg), program, 4, None, cfg

    out["adaptive/FockSimulator"] = general_fock
    return out


# ------------------------------------------------------------------------------ injection
def run_with_injection(thunk, filename=None, lineno=None, nth=1, api="execute"):
    """Execute the scenario; if (filename, lineno) is given raise InjectedFault when that line is
    reached for the nth time.  Returns (before, after, outcome, random_state_changed)."""
    sim, program, shots, init, cfg = thunk()
    before = snapshot(program, init, cfg)
    rstate = random.getstate()
    hits = {"n": 0}
    target = os.path.realpath(filename) if filename else None

    def tracer(frame, event, arg):
        if target is None:
            return None
        if os.path.realpath(frame.f_code.co_filename) != target:
            return None
        return local

    def local(frame, event, arg):
        if event == "line" and frame.f_lineno == lineno:
            hits["n"] += 1
            if hits["n"] == nth:
                raise InjectedFault(f"{filename}:{lineno}")
        return local

    outcome = "returned"
    old = sys.gettrace()
    if target:
        sys.settrace(tracer)
    try:
        if api == "execute":
            sim.execute(program, shots=shots, initial_state=init)
        elif api == "validate":
            sim.validate(program)
    except InjectedFault:
        outcome = "injected-fault-propagated"
    except Exception as e:  # the real code's own failure path
        outcome = f"raised {type(e).__name__}"
    finally:
        sys.settrace(old)
    after = snapshot(program, init, cfg)
    return before, after, outcome, random.getstate() != rstate, hits["n"]
