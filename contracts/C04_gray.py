"""C04/C11: the n-ary reflected Gray-code counter (src/n_aryGrayCodeCounter.hpp) against its class invariant.

The permanent kernels enumerate the row-multiplicity patterns with this class; the kernel proof
(contracts/C04_native.py) uses only the class's contract.  Here the REAL methods (clang AST -> integer
skeleton, every field `x` of `this` appearing as the variable `f_x`) are verified against it:

  INV(gray, cc, lim, offset, offset_max) :=
      all three arrays have num_digits >= 1 entries, lim[j] >= 1, 0 <= cc[j] < lim[j],
      gray[j] = (PARG(gray, j, n) = 1 ? lim[j] - 1 - cc[j] : cc[j])      (reflected code of the mixed-radix digits)
      offset = VAL(cc, lim, n) = sum_i cc[i] * prod_{j<i} lim[j]           (mixed-radix value)
      offset_max <= prod_j lim[j] - 1

  next():       INV  ==>  returns 1 iff offset >= offset_max (nothing changes), else INV again, offset + 1,
                exactly one gray digit changes, by +-1, stays in range, and index / old / new value are reported;
  initialize(t), the constructors: establish INV with offset = t;  set_offset_max: keeps INV.

Spec functions PARG (parity of the digits above j) and VAL are defined by their unfold equations; the
inductions about them (frame, flip, zero, bound) are ghost lemmas proved by pyvc in this file.
"""
from __future__ import annotations

import ast

from contracts import C04_native as N
from vf import cppvc, pyvc

SEQ = ("Seq", "Int")
INT_MAX = 2147483647

N.SPEC.funs.update({
    "PARG": ([SEQ, "Int", "Int"], "Int"),     # (sum_{j < m < n} g[m]) mod 2
    "VAL": ([SEQ, SEQ, "Int"], "Int"),        # sum_{i < k} c[i] * LIML(l, i)
})
N.LEMMAS.update({
    "PARG_unfold": dict(params=[("g", SEQ), ("j", "Int"), ("n", "Int")], lean="definition (recursive spec function)",
                        formula="PARG(g, j, n) == ite(j >= n - 1, 0, ite(PARG(g, j + 1, n) == g[j + 1] % 2, 0, 1))"),
    "VAL_unfold": dict(params=[("c", SEQ), ("l", SEQ), ("k", "Int")], lean="definition (recursive spec function)",
                       formula="VAL(c, l, k) == ite(k <= 0, 0, VAL(c, l, k - 1) + c[k - 1] * LIML(l, k - 1))"),
    # ghost lemmas (proved below by pyvc)
    "PARG_bit": dict(params=[("g", SEQ), ("j", "Int"), ("n", "Int")], lean="ghost lemma C04_gray.parg_bit (pyvc)",
                     formula="implies(j <= n - 1, 0 <= PARG(g, j, n) and PARG(g, j, n) <= 1)"),
    "PARG_frame": dict(params=[("g", SEQ), ("g2", SEQ), ("j", "Int"), ("n", "Int")], lean="ghost lemma C04_gray.parg_frame (pyvc)",
                       formula="implies(j <= n - 1 and forall(lambda m: g2[m] == g[m], j + 1, n), PARG(g2, j, n) == PARG(g, j, n))"),
    "PARG_flip": dict(params=[("g", SEQ), ("g2", SEQ), ("m", "Int"), ("j", "Int"), ("n", "Int")],
                      lean="ghost lemma C04_gray.parg_flip (pyvc)",
                      formula="implies(0 <= j and j < m and m < n and (g2[m] == g[m] + 1 or g2[m] == g[m] - 1) and "
                              "forall(lambda q: implies(q != m, g2[q] == g[q]), j + 1, n), PARG(g2, j, n) == 1 - PARG(g, j, n))"),
    "PARG_change": dict(params=[("g", SEQ), ("g2", SEQ), ("m", "Int"), ("n", "Int")], lean="ghost lemma C04_gray.parg_change (pyvc)",
                        formula="implies(0 <= m and m < n and (g2[m] == g[m] + 1 or g2[m] == g[m] - 1) and "
                                "forall(lambda q: implies(q != m, g2[q] == g[q]), 0, n), "
                                "forall(lambda j: 0 <= PARG(g, j, n) and PARG(g, j, n) <= 1 and "
                                "PARG(g2, j, n) == ite(j < m, 1 - PARG(g, j, n), PARG(g, j, n)), 0, n))"),
    "PARG_same": dict(params=[("g", SEQ), ("g2", SEQ), ("k", "Int"), ("n", "Int")], lean="ghost lemma C04_gray.parg_same (pyvc)",
                      formula="implies(1 <= k and k <= n and forall(lambda q: g2[q] == g[q], k, n), "
                              "forall(lambda j: 0 <= PARG(g, j, n) and PARG(g, j, n) <= 1 and PARG(g2, j, n) == PARG(g, j, n), k - 1, n))"),
    "VAL_frame": dict(params=[("c", SEQ), ("c2", SEQ), ("l", SEQ), ("m", "Int"), ("n", "Int")],
                      lean="ghost lemma C04_gray.val_frame (pyvc)",
                      formula="implies(0 <= m and m <= n and forall(lambda q: c2[q] == c[q], m, n), "
                              "VAL(c2, l, n) - VAL(c2, l, m) == VAL(c, l, n) - VAL(c, l, m))"),
    "VAL_zero": dict(params=[("c", SEQ), ("l", SEQ), ("m", "Int")], lean="ghost lemma C04_gray.val_zero (pyvc)",
                     formula="implies(0 <= m and forall(lambda q: c[q] == 0, 0, m), VAL(c, l, m) == 0)"),
    "VAL_bound": dict(params=[("c", SEQ), ("l", SEQ), ("n", "Int")], lean="ghost lemma C04_gray.val_bound (pyvc)",
                      formula="implies(0 <= n and forall(lambda q: l[q] >= 1 and 0 <= c[q] and c[q] < l[q], 0, n), "
                              "1 <= LIML(l, n) and 0 <= VAL(c, l, n) and VAL(c, l, n) <= LIML(l, n) - 1)"),
})

GHOST_SRC = '''
def parg_bit(g, j, n):
    i = n - 1
    while i > j:
        i = i - 1
    return 0


def parg_frame(g, g2, j, n):
    i = n - 1
    while i > j:
        i = i - 1
    return 0


def parg_flip(g, g2, m, j, n):
    i = n - 1
    while i > j:
        i = i - 1
    return 0


def parg_change(g, g2, m, n):
    i = n - 1
    while i > 0:
        i = i - 1
    return 0


def parg_same(g, g2, k, n):
    i = n - 1
    while i > k - 1:
        i = i - 1
    return 0


def val_frame(c, c2, l, m, n):
    i = m
    while i < n:
        i = i + 1
    return 0


def val_zero(c, l, m):
    i = 0
    while i < m:
        i = i + 1
    return 0


def val_bound(c, l, n):
    i = 0
    while i < n:
        i = i + 1
    return 0
'''

BIT = "0 <= PARG({0}, {1}, n) and PARG({0}, {1}, n) <= 1"
GHOST = {
    "parg_bit": dict(
        params=[("g", SEQ), ("j", "Int"), ("n", "Int")], returns="Int",
        requires=["j <= n - 1"], ensures=[BIT.format("g", "j")],
        loops={"0": dict(invariant=["j <= i", "i <= n - 1", BIT.format("g", "i")])},
        ghost={"loop[0].before": ["use('PARG_unfold', g, n - 1, n)"], "loop[0].start": ["use('PARG_unfold', g, i - 1, n)"]}),
    "parg_frame": dict(
        params=[("g", SEQ), ("g2", SEQ), ("j", "Int"), ("n", "Int")], returns="Int",
        requires=["j <= n - 1", "forall(lambda m: g2[m] == g[m], j + 1, n)"], ensures=["PARG(g2, j, n) == PARG(g, j, n)"],
        loops={"0": dict(invariant=["j <= i", "i <= n - 1", "PARG(g2, i, n) == PARG(g, i, n)"])},
        ghost={"loop[0].before": ["use('PARG_unfold', g, n - 1, n)", "use('PARG_unfold', g2, n - 1, n)"],
               "loop[0].start": ["use('PARG_unfold', g, i - 1, n)", "use('PARG_unfold', g2, i - 1, n)"]}),
    "parg_flip": dict(
        params=[("g", SEQ), ("g2", SEQ), ("m", "Int"), ("j", "Int"), ("n", "Int")], returns="Int",
        requires=["0 <= j", "j < m", "m < n", "g2[m] == g[m] + 1 or g2[m] == g[m] - 1",
                  "forall(lambda q: implies(q != m, g2[q] == g[q]), j + 1, n)"],
        ensures=["PARG(g2, j, n) == 1 - PARG(g, j, n)"],
        loops={"0": dict(invariant=["j <= i", "i <= n - 1", BIT.format("g", "i"), BIT.format("g2", "i"),
                                    "implies(i >= m, PARG(g2, i, n) == PARG(g, i, n))",
                                    "implies(i < m, PARG(g2, i, n) == 1 - PARG(g, i, n))"])},
        ghost={"loop[0].before": ["use('PARG_unfold', g, n - 1, n)", "use('PARG_unfold', g2, n - 1, n)"],
               "loop[0].start": ["use('PARG_unfold', g, i - 1, n)", "use('PARG_unfold', g2, i - 1, n)"]}),
    "parg_change": dict(
        params=[("g", SEQ), ("g2", SEQ), ("m", "Int"), ("n", "Int")], returns="Int",
        requires=["0 <= m", "m < n", "g2[m] == g[m] + 1 or g2[m] == g[m] - 1", "forall(lambda q: implies(q != m, g2[q] == g[q]), 0, n)"],
        ensures=["forall(lambda j: 0 <= PARG(g, j, n) and PARG(g, j, n) <= 1 and "
                 "PARG(g2, j, n) == ite(j < m, 1 - PARG(g, j, n), PARG(g, j, n)), 0, n)"],
        loops={"0": dict(invariant=["0 <= i", "i <= n - 1",
                                    "forall(lambda j: 0 <= PARG(g, j, n) and PARG(g, j, n) <= 1 and "
                                    "PARG(g2, j, n) == ite(j < m, 1 - PARG(g, j, n), PARG(g, j, n)), i, n)"])},
        ghost={"loop[0].before": ["use('PARG_unfold', g, n - 1, n)", "use('PARG_unfold', g2, n - 1, n)"],
               "loop[0].start": ["use('PARG_unfold', g, i - 1, n)", "use('PARG_unfold', g2, i - 1, n)"]}),
    "parg_same": dict(
        params=[("g", SEQ), ("g2", SEQ), ("k", "Int"), ("n", "Int")], returns="Int",
        requires=["1 <= k", "k <= n", "forall(lambda q: g2[q] == g[q], k, n)"],
        ensures=["forall(lambda j: 0 <= PARG(g, j, n) and PARG(g, j, n) <= 1 and PARG(g2, j, n) == PARG(g, j, n), k - 1, n)"],
        loops={"0": dict(invariant=["k - 1 <= i", "i <= n - 1",
                                    "forall(lambda j: 0 <= PARG(g, j, n) and PARG(g, j, n) <= 1 and PARG(g2, j, n) == PARG(g, j, n), i, n)"])},
        ghost={"loop[0].before": ["use('PARG_unfold', g, n - 1, n)", "use('PARG_unfold', g2, n - 1, n)"],
               "loop[0].start": ["use('PARG_unfold', g, i - 1, n)", "use('PARG_unfold', g2, i - 1, n)"]}),
    "val_frame": dict(
        params=[("c", SEQ), ("c2", SEQ), ("l", SEQ), ("m", "Int"), ("n", "Int")], returns="Int",
        requires=["0 <= m", "m <= n", "forall(lambda q: c2[q] == c[q], m, n)"],
        ensures=["VAL(c2, l, n) - VAL(c2, l, m) == VAL(c, l, n) - VAL(c, l, m)"],
        loops={"0": dict(invariant=["m <= i", "i <= n", "VAL(c2, l, i) - VAL(c2, l, m) == VAL(c, l, i) - VAL(c, l, m)"])},
        ghost={"loop[0].start": ["use('VAL_unfold', c, l, i + 1)", "use('VAL_unfold', c2, l, i + 1)"]}),
    "val_zero": dict(
        params=[("c", SEQ), ("l", SEQ), ("m", "Int")], returns="Int",
        requires=["0 <= m", "forall(lambda q: c[q] == 0, 0, m)"], ensures=["VAL(c, l, m) == 0"],
        loops={"0": dict(invariant=["0 <= i", "i <= m", "VAL(c, l, i) == 0"])},
        ghost={"loop[0].before": ["use('VAL_unfold', c, l, 0)"], "loop[0].start": ["use('VAL_unfold', c, l, i + 1)"]}),
    "val_bound": dict(
        params=[("c", SEQ), ("l", SEQ), ("n", "Int")], returns="Int",
        requires=["0 <= n", "forall(lambda q: l[q] >= 1 and 0 <= c[q] and c[q] < l[q], 0, n)"],
        ensures=["1 <= LIML(l, n)", "0 <= VAL(c, l, n)", "VAL(c, l, n) <= LIML(l, n) - 1"],
        loops={"0": dict(invariant=["0 <= i", "i <= n", "1 <= LIML(l, i)", "0 <= VAL(c, l, i)", "VAL(c, l, i) <= LIML(l, i) - 1"])},
        ghost={"loop[0].before": ["use('VAL_unfold', c, l, 0)", "use('LIML_unfold', l, 0)"],
               "loop[0].start": ["use('VAL_unfold', c, l, i + 1)", "use('LIML_unfold', l, i + 1)",
                                 # c[i] * W <= (l[i] - 1) * W
                                 "use('mul_le', c[i], LIML(l, i), l[i] - 1, LIML(l, i))"]}),
}

def inv_len(g="f_gray_code", c="f_counter_chain", l="f_n_ary_limits", n="f_num_digits"):
    return [f"len({g}) == {n}", f"len({c}) == {n}", f"len({l}) == {n}"]


def inv_body(g="f_gray_code", c="f_counter_chain", l="f_n_ary_limits", off="f_offset", omax="f_offset_max", n="f_num_digits"):
    return [
        f"1 <= {n} and {n} <= {INT_MAX}",
        f"forall(lambda j: {l}[j] >= 1 and {l}[j] <= {INT_MAX} and 0 <= {c}[j] and {c}[j] < {l}[j], 0, {n})",
        f"forall(lambda j: {g}[j] == ite(PARG({g}, j, {n}) == 1, {l}[j] - 1 - {c}[j], {c}[j]), 0, {n})",
        f"{off} == VAL({c}, {l}, {n})", f"{omax} <= LIML({l}, {n}) - 1",
    ]


def inv():
    return inv_len() + inv_body()


def inv_body_of(g, c, l, off, omax, n):
    return inv_body(g, c, l, off, omax, n)


# ---- C11: the counter's state is a function of its offset (mixed-radix digits are unique, the code is determined by them)
N.LEMMAS.update({
    "VAL_unique": dict(params=[("c1", SEQ), ("c2", SEQ), ("l", SEQ), ("n", "Int")], lean="ghost lemma C04_gray.val_unique (pyvc)",
                       formula="implies(0 <= n and forall(lambda q: l[q] >= 1 and 0 <= c1[q] and c1[q] < l[q] and 0 <= c2[q] and c2[q] < l[q], 0, n) "
                               "and VAL(c1, l, n) == VAL(c2, l, n), forall(lambda q: c1[q] == c2[q], 0, n))"),
    "GRAY_unique": dict(params=[("g1", SEQ), ("g2", SEQ), ("c", SEQ), ("l", SEQ), ("n", "Int")], lean="ghost lemma C04_gray.gray_unique (pyvc)",
                        formula="implies(1 <= n and forall(lambda j: g1[j] == ite(PARG(g1, j, n) == 1, l[j] - 1 - c[j], c[j]) and "
                                "g2[j] == ite(PARG(g2, j, n) == 1, l[j] - 1 - c[j], c[j]), 0, n), forall(lambda j: g1[j] == g2[j], 0, n))"),
})
GHOST_EXTRA_SRC = '''
def val_unique(c1, c2, l, n):
    i = n
    while i > 0:
        i = i - 1
    return 0


def gray_unique(g1, g2, c, l, n):
    i = n - 1
    while i > 0:
        i = i - 1
    return 0


def state_is_a_function_of_the_offset(n, g1, c1, g2, c2, l, off, omax1, omax2):
    return 0
'''
DIGITS2 = "forall(lambda q: l[q] >= 1 and 0 <= c1[q] and c1[q] < l[q] and 0 <= c2[q] and c2[q] < l[q], 0, n)"
GHOST_EXTRA = {
    "val_unique": dict(
        params=[("c1", SEQ), ("c2", SEQ), ("l", SEQ), ("n", "Int")], returns="Int",
        requires=["0 <= n", DIGITS2, "VAL(c1, l, n) == VAL(c2, l, n)"], ensures=["forall(lambda q: c1[q] == c2[q], 0, n)"],
        loops={"0": dict(invariant=["0 <= i", "i <= n", "VAL(c1, l, i) == VAL(c2, l, i)", "forall(lambda q: c1[q] == c2[q], i, n)"])},
        ghost={"loop[0].start": [
            "use('VAL_unfold', c1, l, i)", "use('VAL_unfold', c2, l, i)",
            "use('VAL_bound', c1, l, i - 1)", "use('VAL_bound', c2, l, i - 1)",
            # a difference of one digit or more outweighs everything below it
            "use('mul_le', 1, LIML(l, i - 1), c1[i - 1] - c2[i - 1], LIML(l, i - 1))",
            "use('mul_le', 1, LIML(l, i - 1), c2[i - 1] - c1[i - 1], LIML(l, i - 1))"]}),
    "gray_unique": dict(
        params=[("g1", SEQ), ("g2", SEQ), ("c", SEQ), ("l", SEQ), ("n", "Int")], returns="Int",
        requires=["1 <= n", "forall(lambda j: g1[j] == ite(PARG(g1, j, n) == 1, l[j] - 1 - c[j], c[j]) and "
                            "g2[j] == ite(PARG(g2, j, n) == 1, l[j] - 1 - c[j], c[j]), 0, n)"],
        ensures=["forall(lambda j: g1[j] == g2[j], 0, n)"],
        loops={"0": dict(invariant=["0 <= i", "i <= n - 1", "forall(lambda j: g1[j] == g2[j], i, n)"])},
        ghost={"loop[0].before": ["use('PARG_unfold', g1, n - 1, n)", "use('PARG_unfold', g2, n - 1, n)"],
               "loop[0].start": ["use('PARG_same', g1, g2, i, n)"]}),
    # two counter objects over the same limits that both satisfy the class invariant at the same offset hold the same code
    "state_is_a_function_of_the_offset": dict(
        params=[("n", "Int"), ("g1", SEQ), ("c1", SEQ), ("g2", SEQ), ("c2", SEQ), ("l", SEQ), ("off", "Int"), ("omax1", "Int"), ("omax2", "Int")],
        returns="Int",
        requires=inv_body_of("g1", "c1", "l", "off", "omax1", "n") + inv_body_of("g2", "c2", "l", "off", "omax2", "n"),
        ensures=["forall(lambda j: g1[j] == g2[j] and c1[j] == c2[j], 0, n)"],
        ghost={"entry": ["use('VAL_unique', c1, c2, l, n)", "let('c_', c1)"],
               "exit": ["use('GRAY_unique', g1, g2, c1, l, n)"]}),
}

# ------------------------------------------------------------------------------------------ the class
FIELDS = [("f_num_digits", "Int"), ("f_gray_code", SEQ), ("f_n_ary_limits", SEQ), ("f_counter_chain", SEQ),
          ("f_offset_max", "Int"), ("f_offset", "Int")]


# GCINV abbreviates inv_body (a definition): callers of the class (the permanent kernels) carry it opaquely
GCINV_ARGS = "f_num_digits, f_gray_code, f_counter_chain, f_n_ary_limits, f_offset, f_offset_max"
GCINV = f"GCINV({GCINV_ARGS})"
N.SPEC.funs["GCINV"] = (["Int", SEQ, SEQ, SEQ, "Int", "Int"], "Bool")


n_ = "f_num_digits"
NEXT = dict(
    params=[("changed_index", "Int"), ("value_prev", "Int"), ("value", "Int")] + FIELDS, returns="Int",
    requires=inv() + ["f_offset_max <= 9223372036854775806"],
    ensures=inv() + [
        "result == 0 or result == 1", "iff(result == 1, old(f_offset) >= old(f_offset_max))",
        "f_offset_max == old(f_offset_max)", "f_num_digits == old(f_num_digits)",
        "forall(lambda j: f_n_ary_limits[j] == old(f_n_ary_limits)[j], 0, f_num_digits)",
        "implies(result == 1, f_offset == old(f_offset) and forall(lambda j: f_gray_code[j] == old(f_gray_code)[j], 0, f_num_digits))",
        "implies(result == 0, f_offset == old(f_offset) + 1 and 0 <= changed_index and changed_index < f_num_digits and "
        "value_prev == old(f_gray_code)[changed_index] and value == f_gray_code[changed_index] and "
        "(value == value_prev + 1 or value == value_prev - 1) and 0 <= value and value < f_n_ary_limits[changed_index] and "
        "forall(lambda j: implies(j != changed_index, f_gray_code[j] == old(f_gray_code)[j]), 0, f_num_digits))",
    ],
    loops={
        # carry chain: digits below idx were at their maximum and are now 0
        "0": dict(invariant=[
            "0 <= counter_chain_idx", f"counter_chain_idx <= {n_}", f"len(f_counter_chain) == {n_}",
            "forall(lambda j: old(f_counter_chain)[j] == f_n_ary_limits[j] - 1 and f_counter_chain[j] == 0, 0, "
            "ite(update_counter, counter_chain_idx, counter_chain_idx - 1))",
            "VAL(old(f_counter_chain), f_n_ary_limits, ite(update_counter, counter_chain_idx, counter_chain_idx - 1)) == "
            "LIML(f_n_ary_limits, ite(update_counter, counter_chain_idx, counter_chain_idx - 1)) - 1",
            f"forall(lambda j: f_counter_chain[j] == old(f_counter_chain)[j], counter_chain_idx, {n_})",
            "implies(not update_counter, counter_chain_idx >= 1 and "
            "f_counter_chain[counter_chain_idx - 1] == old(f_counter_chain)[counter_chain_idx - 1] + 1 and "
            "f_counter_chain[counter_chain_idx - 1] <= f_n_ary_limits[counter_chain_idx - 1] - 1)",
        ]),
        # recomputation of the code from the most significant digit down to the one that changed
        "1": dict(invariant=[
            "m_ <= i", f"i <= {n_} - 1", f"len(f_gray_code) == {n_}", "parity == PARG(f_gray_code, i, f_num_digits)",
            f"forall(lambda j: f_gray_code[j] == old(f_gray_code)[j], 0, {n_})", "changed_index == 0",
            # the class invariant's code relation, restated for the current array and the OLD digits
            f"forall(lambda j: f_gray_code[j] == ite(PARG(f_gray_code, j, {n_}) == 1, "
            f"f_n_ary_limits[j] - 1 - old(f_counter_chain)[j], old(f_counter_chain)[j]), 0, {n_})",
        ]),
    },
    ghost={
        "loop[0].before": ["use('VAL_unfold', f_counter_chain, f_n_ary_limits, 0)", "use('LIML_unfold', f_n_ary_limits, 0)",
                           "use('VAL_bound', f_counter_chain, f_n_ary_limits, f_num_digits)"],
        "loop[0].start": ["use('VAL_unfold', old(f_counter_chain), f_n_ary_limits, counter_chain_idx + 1)",
                          "use('LIML_unfold', f_n_ary_limits, counter_chain_idx + 1)",
                          "use('VAL_bound', old(f_counter_chain), f_n_ary_limits, f_num_digits)"],
        "loop[1].before": [
            "let('m_', counter_chain_idx - 1)", "let('g_h', f_gray_code)",
            "use('PARG_unfold', f_gray_code, f_num_digits - 1, f_num_digits)",
            # the mixed-radix value went up by exactly one
            "use('VAL_frame', old(f_counter_chain), f_counter_chain, f_n_ary_limits, m_ + 1, f_num_digits)",
            "use('VAL_zero', f_counter_chain, f_n_ary_limits, m_)",
            "use('VAL_unfold', f_counter_chain, f_n_ary_limits, m_ + 1)",
            "use('VAL_unfold', old(f_counter_chain), f_n_ary_limits, m_ + 1)",
            "check(VAL(f_counter_chain, f_n_ary_limits, f_num_digits) == VAL(old(f_counter_chain), f_n_ary_limits, f_num_digits) + 1)",
        ],
        "loop[1].start": ["use('PARG_unfold', f_gray_code, i - 1, f_num_digits)", "use('PARG_bit', f_gray_code, i, f_num_digits)",
                          "use('PARG_same', g_h, f_gray_code, 1, f_num_digits)"],
    },
    ghost_before={"f_offset = ": ["use('PARG_change', g_h, f_gray_code, changed_index, f_num_digits)"]},
)


# initialize(t): t in [0, offset_max], t fits an int (the method narrows it with static_cast<int>)
INIT = dict(
    params=[("initial_offset", "Int")] + FIELDS, returns="None",
    requires=[f"1 <= {n_} and {n_} <= {INT_MAX}", f"len(f_gray_code) == {n_}", f"len(f_counter_chain) == {n_}", f"len(f_n_ary_limits) == {n_}",
              f"forall(lambda j: f_n_ary_limits[j] >= 1 and f_n_ary_limits[j] <= {INT_MAX}, 0, {n_})",
              "0 <= initial_offset", "initial_offset <= f_offset_max", f"initial_offset <= {INT_MAX}",
              f"f_offset_max <= LIML(f_n_ary_limits, {n_}) - 1", "f_offset == initial_offset"],
    ensures=inv() + ["f_offset == old(f_offset)", "f_offset_max == old(f_offset_max)", "f_num_digits == old(f_num_digits)",
                     "forall(lambda j: f_n_ary_limits[j] == old(f_n_ary_limits)[j], 0, f_num_digits)"],
    loops={
        "0": dict(invariant=[
            "0 <= i", f"i <= {n_}", f"len(f_counter_chain) == {n_}", "0 <= temp_offset", f"temp_offset <= {INT_MAX}",
            "temp_offset * LIML(f_n_ary_limits, i) + VAL(f_counter_chain, f_n_ary_limits, i) == initial_offset",
            "1 <= LIML(f_n_ary_limits, i)",
            "forall(lambda j: 0 <= f_counter_chain[j] and f_counter_chain[j] < f_n_ary_limits[j], 0, i)"]),
        "1": dict(invariant=[
            "0 - 1 <= i", f"i <= {n_} - 1", f"len(f_gray_code) == {n_}", "parity == PARG(f_gray_code, i, f_num_digits)",
            "0 <= parity and parity <= 1",
            f"forall(lambda j: f_gray_code[j] == ite(PARG(f_gray_code, j, {n_}) == 1, "
            f"f_n_ary_limits[j] - 1 - f_counter_chain[j], f_counter_chain[j]), i + 1, {n_})"]),
    },
    ghost={
        "loop[0].before": ["use('VAL_unfold', f_counter_chain, f_n_ary_limits, 0)", "use('LIML_unfold', f_n_ary_limits, 0)"],
        "loop[0].start": ["let('c_h', f_counter_chain)", "let('W_', LIML(f_n_ary_limits, i))", "let('l_', f_n_ary_limits[i])",
                          "let('q_', temp_offset // f_n_ary_limits[i])", "let('r_', temp_offset % f_n_ary_limits[i])",
                          "use('LIML_unfold', f_n_ary_limits, i + 1)", "use('mul_eq', temp_offset, q_ * l_ + r_, W_)",
                          "use('mul_le', 1, 1, W_, l_)"],
        "loop[1].before": ["use('PARG_unfold', f_gray_code, f_num_digits - 1, f_num_digits)",
                           "use('VAL_bound', f_counter_chain, f_n_ary_limits, f_num_digits)",
                           # temp_offset >= 1 would make the value exceed prod(limits) - 1
                           "use('mul_le', 1, LIML(f_n_ary_limits, f_num_digits), temp_offset, LIML(f_n_ary_limits, f_num_digits))"],
        "loop[1].start": ["let('g_h', f_gray_code)"],
    },
    ghost_after={
        "f_counter_chain[i] = ": ["use('VAL_frame', c_h, f_counter_chain, f_n_ary_limits, 0, i)", "use('VAL_unfold', c_h, f_n_ary_limits, 0)",
                                  "use('VAL_unfold', f_counter_chain, f_n_ary_limits, 0)",
                                  "use('VAL_unfold', f_counter_chain, f_n_ary_limits, i + 1)"],
        "f_gray_code[i] = ": ["use('PARG_same', g_h, f_gray_code, i + 1, f_num_digits)",
                              "use('PARG_unfold', f_gray_code, i - 1, f_num_digits)"],
    },
)


ALLOC = dict(
    params=[("n", "Int")] + FIELDS, returns="None",
    requires=["0 <= n"],
    ensures=["f_num_digits == old(n)", "len(f_n_ary_limits) == old(n)", "len(f_gray_code) == old(n)", "len(f_counter_chain) == old(n)",
             "f_offset == old(f_offset)", "f_offset_max == old(f_offset_max)"],
)

SETMAX = dict(
    params=[("value", "Int")] + FIELDS, returns="None",
    requires=inv() + ["value <= LIML(f_n_ary_limits, f_num_digits) - 1"],
    ensures=inv() + ["f_offset_max == old(value)", "f_offset == old(f_offset)", "f_num_digits == old(f_num_digits)",
                     "forall(lambda j: f_gray_code[j] == old(f_gray_code)[j] and f_counter_chain[j] == old(f_counter_chain)[j] and "
                     "f_n_ary_limits[j] == old(f_n_ary_limits)[j], 0, f_num_digits)"],
)

I64_MAX = 9223372036854775807
CTOR = dict(
    params=[("limits", SEQ), ("n", "Int"), ("initial_offset", "Int")] + FIELDS, returns="None",
    requires=["1 <= n", f"n <= {INT_MAX}", "len(limits) == n", f"forall(lambda j: 1 <= limits[j] and limits[j] <= {INT_MAX}, 0, n)",
              f"forall(lambda k: LIML(limits, k) <= {I64_MAX}, 0, n + 1)",
              "0 <= initial_offset", "initial_offset <= LIML(limits, n) - 1", f"initial_offset <= {INT_MAX}"],
    ensures=inv() + ["f_offset == old(initial_offset)", "f_offset_max == LIML(old(limits), old(n)) - 1", "f_num_digits == old(n)",
                     "forall(lambda j: f_n_ary_limits[j] == old(limits)[j], 0, f_num_digits)",
                     "LIML(f_n_ary_limits, f_num_digits) == LIML(old(limits), old(n))",
                     "forall(lambda j: 0 <= f_gray_code[j] and f_gray_code[j] < f_n_ary_limits[j], 0, f_num_digits)"],
    loops={
        "0": dict(invariant=["0 <= i", f"i <= {n_}", f"len(f_n_ary_limits) == {n_}",
                             "forall(lambda j: f_n_ary_limits[j] == limits[j], 0, i)"]),
        "1": dict(invariant=["1 <= i", f"i <= {n_}", "f_offset_max == LIML(f_n_ary_limits, i)", "f_offset_max == LIML(limits, i)",
                             "1 <= f_offset_max"]),
    },
    ghost={
        "loop[1].before": ["use('LIML_unfold', f_n_ary_limits, 0)", "use('LIML_unfold', f_n_ary_limits, 1)",
                           "use('LIML_unfold', limits, 0)", "use('LIML_unfold', limits, 1)"],
        "loop[1].start": ["use('LIML_unfold', f_n_ary_limits, i + 1)", "use('LIML_unfold', limits, i + 1)",
                          "use('mul_le', 1, 1, f_offset_max, f_n_ary_limits[i])"],
    },
)


def as_callee(contract, mutated, fold=False):
    """the contract of a method, as seen from a caller: fields/out-parameters the method may change become `outs`;
    in the ensures, old(x) is the argument value and a changed name x refers to the out value (mechanical rewrite)"""
    import re
    sorts = dict(contract["params"])

    def rw(e):
        e = re.sub(r"old\((\w+)\)", lambda m: "@@" + m.group(1) + "@@", e)
        for f in mutated:
            e = re.sub(r"(?<![\w@])" + re.escape(f) + r"(?![\w@])", f + "_out", e)
        return re.sub(r"@@(\w+)@@", lambda m: m.group(1), e)

    def fold_inv(lst):
        # the conjuncts of the class invariant's body, verbatim, are replaced by their abbreviation GCINV(...)
        body = inv_body()
        if fold and all(b in lst for b in body):
            return [GCINV] + [x for x in lst if x not in body]
        return list(lst)

    return dict(params=contract["params"], returns="Int" if contract.get("returns") in (None, "None") else contract["returns"],
                outs=[(f, sorts[f]) for f in mutated], requires=fold_inv(contract.get("requires", [])),
                ensures=[rw(e) for e in fold_inv(contract.get("ensures", []))])


ARRAYS = ["f_num_digits", "f_gray_code", "f_n_ary_limits", "f_counter_chain"]


def _this_call(callee, mutated):
    """statement `this->method(args)` inside another method: a call of the callee's contract on the field variables"""
    def handler(tr, n):
        args = [tr.ex(a) for a in n["inner"][1:]]
        S = ast.Store()
        tgt = ast.Tuple(elts=[ast.Name(id="_ret", ctx=S)] + [ast.Name(id=f, ctx=S) for f in mutated], ctx=S)
        return [ast.Assign(targets=[tgt], value=tr.call(callee, *args, *[tr.name(f) for f, _ in FIELDS]))]
    return handler


CTOR_TRANSLATION = {
    "ignored_calls": ("printf",),
    "stmt_calls": {"n_aryGrayCodeCounter *::allocate_arrays": _this_call("GC_allocate_arrays", ARRAYS),
                   "n_aryGrayCodeCounter *::initialize": _this_call("GC_initialize", ["f_gray_code", "f_counter_chain"])},
}
CTOR_CALLEES = {
    "GC_allocate_arrays": as_callee(ALLOC, ARRAYS),
    "GC_initialize": as_callee(INIT, ["f_gray_code", "f_counter_chain"]),
}


NEXT_MUTATED = ["changed_index", "value_prev", "value", "f_gray_code", "f_counter_chain", "f_offset"]
ALL_FIELDS = [f for f, _ in FIELDS]
# contracts of the class as used by the kernel proof: derived mechanically from the VERIFIED method contracts
KERNEL_CALLEES = {
    "GC_ctor": as_callee(CTOR, ALL_FIELDS, fold=True),
    "GC_set_offset_max": as_callee(SETMAX, ["f_offset_max"], fold=True),
    "GC_next": as_callee(NEXT, NEXT_MUTATED, fold=True),
}


def _fields_as_params(py, extra=()):
    have = [a.arg for a in py.args.args]
    py.args.args = [ast.arg(arg=a) for a in have] + [ast.arg(arg=f) for f, _ in FIELDS if f not in have]
    ast.fix_missing_locations(py)
    return py


def method(name, type_prefix=None, contract=None):
    docs = cppvc.clang_ast("src/permanent.cpp", "n_aryGrayCodeCounter")
    node = cppvc.find_function(docs, name, type_prefix, "n_aryGrayCodeCounter")
    py, tr = cppvc.translate(node, contract or {})
    return _fields_as_params(py), tr


def check_ghost(run, only=None):
    tree = ast.parse(GHOST_SRC + GHOST_EXTRA_SRC)
    for fn, contract in list(GHOST.items()) + list(GHOST_EXTRA.items()):
        if only and fn not in only:
            continue
        node = next(n for n in tree.body if isinstance(n, ast.FunctionDef) and n.name == fn)
        fid = f"contracts/C04_gray.py:{fn}"
        N.report(run, N.verify_translated(run, fid, node, ast.unparse(node), contract, {}))


def check_next(run):
    check_method(run, "next", None, NEXT)


ON_FAILED = [None]     # set by contracts/C04.py: replays a refuted class obligation on the class compiled from /repo/src


def check_method(run, name, type_prefix, contract, callees=None, translation=None):
    fid = f"src/n_aryGrayCodeCounter.hpp:n_aryGrayCodeCounter::{name}"
    try:
        py, tr = method(name, type_prefix, translation or {"ignored_calls": ("printf",)})
    except (pyvc.Unsupported, StopIteration) as e:
        run.undecided_ob(f"{fid}/extraction", "cppvc", "clang-ast", f"{type(e).__name__}: {e}")
        return
    text = ast.unparse(py)
    run.function(fid, text, dropped_float_statements=tr.dropped)
    N.report(run, N.verify_translated(run, fid, py, text, contract, callees or {}), on_failed=ON_FAILED[0])


def check_initialize(run):
    check_method(run, "initialize", "void (int64_t)", INIT)


def check_rest(run):
    check_method(run, "allocate_arrays", None, ALLOC)
    check_method(run, "set_offset_max", None, SETMAX)
    check_method(run, "n_aryGrayCodeCounter", "void (int *, size_t, int64_t)", CTOR, CTOR_CALLEES, CTOR_TRANSLATION)


def check(run):
    run.notes.append("n_aryGrayCodeCounter: GCINV(n, gray, cc, limits, offset, offset_max) abbreviates the class invariant "
                     + " and ".join(f"({c})" for c in inv_body()) + "; the kernel proof carries it opaquely and uses the method "
                     "contracts derived mechanically (as_callee) from the contracts the real methods are verified against")
    check_ghost(run)
    check_next(run)
    check_initialize(run)
    check_rest(run)
