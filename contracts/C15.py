"""C15 - matrix decompositions reconstruct their input (DESIGN 5/C15): BOUNDED ONLY.

takagi / williamson / euler / clements are floating compositions of LAPACK calls; no contract
within reach can be discharged deductively.  The property is a set of per-function
post-conditions, so the same contracts are evaluated at run time (rtc) on random AND structured /
degenerate inputs.  Evidence level: exploration; nothing is counted as proved.
"""
from __future__ import annotations

import hashlib
import json

import numpy as np


def haar(n, rng):
    z = rng.normal(size=(n, n)) + 1j * rng.normal(size=(n, n))
    q, r = np.linalg.qr(z)
    return q * (np.diag(r) / np.abs(np.diag(r)))


def unitaries(n, rng):
    yield "haar", haar(n, rng)
    yield "identity", np.identity(n, dtype=complex)
    if n > 1:
        p = np.identity(n)[rng.permutation(n)]
        yield "permutation", p.astype(complex)
        yield "reversal", np.identity(n)[::-1].astype(complex)
        blk = np.identity(n, dtype=complex)
        blk[:2, :2] = haar(2, rng)
        yield "block-diagonal", blk
    yield "diagonal-phases", np.diag(np.exp(1j * rng.uniform(0, 6, n)))


def symmetric_matrices(n, rng):
    a = rng.normal(size=(n, n)) + 1j * rng.normal(size=(n, n))
    yield "random", a + a.T
    u = haar(n, rng)
    yield "repeated-singular-values", u @ np.diag([1.0] * n) @ u.T
    if n > 1:
        s = np.array([2.0, 2.0] + [0.5] * (n - 2))
        yield "two-equal-singular-values", u @ np.diag(s) @ u.T
        s0 = np.array([1.0] + [0.0] * (n - 1))
        yield "zero-singular-values", u @ np.diag(s0) @ u.T
    up = np.triu((rng.uniform(size=(n, n)) < 0.6).astype(float), 1)
    yield "real-adjacency", up + up.T
    yield "zero", np.zeros((n, n), dtype=complex)
    yield "diagonal", np.diag(rng.uniform(0.1, 2, n)).astype(complex)


def random_symplectic(d, rng):
    from scipy.linalg import expm

    a = rng.normal(size=(2 * d, 2 * d))
    h = a + a.T
    om = np.block([[np.zeros((d, d)), np.identity(d)], [-np.identity(d), np.zeros((d, d))]])
    return expm(0.3 * om @ h)


def positive_definite(d, rng):
    S = random_symplectic(d, rng)
    nu = rng.uniform(1.0, 3.0, d)
    yield "random", S @ np.diag(np.concatenate([nu, nu])) @ S.T
    yield "identity", np.identity(2 * d)
    yield "repeated-symplectic-values", S @ (2.0 * np.identity(2 * d)) @ S.T
    yield "diagonal", np.diag(rng.uniform(0.5, 2.0, 2 * d))
    if d > 1:
        nu2 = np.array([1.5, 1.5] + list(rng.uniform(1, 3, d - 2)))
        yield "two-equal-symplectic-values", S @ np.diag(np.concatenate([nu2, nu2])) @ S.T


def check(run):
    from piquasso._math.decompositions import euler, takagi, williamson
    from piquasso._math.symplectic import complex_symplectic_form
    from piquasso._simulators.connectors import NumpyConnector
    from piquasso.decompositions.clements import (clements, get_interferometer_from_weights, get_weights_from_interferometer,
                                                   instructions_from_decomposition, inverse_clements)
    import piquasso as pq

    run.level = "exploration"
    conn = NumpyConnector()
    rng = np.random.default_rng(run.seed + 15)
    tol = 1e-8
    fails, ev, distinct = [], 0, set()
    nmax = 4 if run.tier == "quick" else 6
    reps = 1 if run.tier == "quick" else 4

    def note(kind, label, n, err):
        fails.append({"function": kind, "input": label, "n": n, "error": err})

    for rep in range(reps):
        for n in range(1, nmax + 1):
            for label, U in unitaries(n, rng):
                ev += 1
                distinct.add(("clements", label, n, rep))
                try:
                    dec = clements(U, conn)
                    back = inverse_clements(dec, conn, np.complex128)
                    e1 = float(np.max(np.abs(back - U)))
                    if e1 > tol:
                        note("clements->inverse_clements", label, n, e1)
                    w = get_weights_from_interferometer(U, conn)
                    e2 = float(np.max(np.abs(get_interferometer_from_weights(w, n, conn, np.complex128) - U)))
                    if e2 > tol:
                        note("weights round trip", label, n, e2)
                    ins = instructions_from_decomposition(dec)
                    sim = pq.SamplingSimulator(d=n)
                    st_ = sim.execute_instructions([pq.Vacuum()] + ins).state
                    e3 = float(np.max(np.abs(st_.interferometer - U)))
                    if e3 > tol:
                        note("instructions_from_decomposition", label, n, e3)
                except Exception as e:
                    note("clements", label, n, f"raised {type(e).__name__}: {e}"[:140])
            for label, A in symmetric_matrices(n, rng):
                ev += 1
                distinct.add(("takagi", label, n, rep))
                try:
                    s, Uu = takagi(np.asarray(A, dtype=complex), conn)
                    e = float(np.max(np.abs(Uu @ np.diag(s) @ Uu.T - A)))
                    eu = float(np.max(np.abs(Uu @ Uu.conj().T - np.identity(n))))
                    if e > tol * max(1, np.max(np.abs(A))) or eu > tol or np.min(s) < -tol:
                        note("takagi", label, n, {"reconstruction": e, "unitarity": eu, "min_s": float(np.min(s))})
                except Exception as e:
                    note("takagi", label, n, f"raised {type(e).__name__}: {e}"[:140])
        for d in range(1, (nmax // 2) + 2):
            for label, M in positive_definite(d, rng):
                ev += 1
                distinct.add(("williamson", label, d, rep))
                try:
                    S, D = williamson(M, conn)
                    om = np.block([[np.zeros((d, d)), np.identity(d)], [-np.identity(d), np.zeros((d, d))]])
                    e = float(np.max(np.abs(S @ D @ S.T - M)))
                    es = float(np.max(np.abs(S @ om @ S.T - om)))
                    dd = np.diag(D)
                    paired = float(np.max(np.abs(dd[:d] - dd[d:])))
                    offd = float(np.max(np.abs(D - np.diag(dd))))
                    if e > tol * max(1, np.max(np.abs(M))) or es > 1e-7 or paired > 1e-7 or offd > 0 or np.min(dd) <= 0 or np.max(np.abs(np.imag(S))) > 0:
                        note("williamson", label, d, {"reconstruction": e, "symplectic": es, "pairing": paired, "min_d": float(np.min(dd))})
                except Exception as e:
                    note("williamson", label, d, f"raised {type(e).__name__}: {e}"[:140])
            for label in ("random", "identity", "passive", "squeezers"):
                ev += 1
                distinct.add(("euler", label, d, rep))
                try:
                    if label == "identity":
                        Sx = np.identity(2 * d)
                    elif label == "passive":
                        U = haar(d, rng)
                        Sx = np.block([[U.real, -U.imag], [U.imag, U.real]])
                    elif label == "squeezers":
                        r = rng.uniform(0.1, 1, d)
                        Sx = np.diag(np.concatenate([np.exp(-r), np.exp(r)]))
                    else:
                        Sx = random_symplectic(d, rng)
                    W = np.block([[np.identity(d), 1j * np.identity(d)], [np.identity(d), -1j * np.identity(d)]]) / np.sqrt(2)
                    Sc = W @ Sx @ W.conj().T
                    U_last, r, U_first = euler(Sc, conn)
                    # S_c = [[P, A], [conj A, conj P]] = Emb(U_last) . Squeezing(r, phi=0) . Emb(U_first)
                    P_ = U_last @ np.diag(np.cosh(r)) @ U_first
                    A_ = U_last @ np.diag(-np.sinh(r)) @ np.conj(U_first)
                    e = float(max(np.max(np.abs(P_ - Sc[:d, :d])), np.max(np.abs(A_ - Sc[:d, d:])),
                                  np.max(np.abs(U_last @ U_last.conj().T - np.identity(d))),
                                  np.max(np.abs(U_first @ U_first.conj().T - np.identity(d)))))
                    if e > 1e-7:
                        note("euler", label, d, e)
                except Exception as e:
                    note("euler", label, d, f"raised {type(e).__name__}: {e}"[:140])
        # graph embedding reaches the requested mean photon number
        for n in (2, 3, 4):
            A = np.triu((rng.uniform(size=(n, n)) < 0.7).astype(float), 1)
            A = A + A.T
            if not A.any():
                A[0, 1] = A[1, 0] = 1.0
            for mpn in (0.3, 1.0):
                ev += 1
                distinct.add(("graph", n, mpn, rep))
                try:
                    sim = pq.GaussianSimulator(d=n)
                    st_ = sim.execute_instructions([pq.Vacuum(), pq.Graph(A, mean_photon_number=mpn)]).state
                    got = float(st_.mean_photon_number()) / n
                    if abs(got - mpn) > 1e-6:
                        note("Graph mean photon number", f"n={n}", n, {"requested": mpn, "got": got})
                except Exception as e:
                    note("Graph", f"n={n}", n, f"raised {type(e).__name__}: {e}"[:140])
    by = {}
    for f in fails:
        by.setdefault(f["function"], []).append(f)
    for fn, fs in by.items():
        run.failed(f"C15/bounded/{fn}", "rtc", "run-time-contract", what=f"{len(fs)} input(s) violate the post-condition of {fn}; first: {fs[0]}",
                   counterexample=fs[0], replay={"kind": "bounded", "seed": run.seed}, reproduced=True, observed={"failures": fs[:6]})
    run.samples = [{"function": "takagi", "contract": "U unitary, s >= 0, U diag(s) U^T = A", "inputs": "random / repeated / zero singular values / adjacency / zero"},
                   {"function": "williamson", "contract": "S real symplectic, D positive diagonal paired per mode, S D S^T = M"},
                   {"function": "clements", "contract": "inverse_clements(clements(U)) = U; weights round trip; instruction list reproduces U",
                    "inputs": "Haar, identity, permutation, reversal, block-diagonal, diagonal phases, d = 1"},
                   {"function": "euler", "contract": "U1 D U2 = S"}, {"function": "Graph", "contract": "mean photon number per mode = requested"}]
    run.bounded_result("C15/bounded/decomposition-post-conditions", domain="takagi / williamson / euler / clements (+inverse, weights, "
                       "instruction list) / Graph on Haar-random and structured or degenerate inputs", bound=f"dimension <= {nmax} "
                       f"({nmax + 2} real for symplectic forms), tol {tol}", evaluations=ev, distinct=len(distinct), failures=len(fails))
    run.assume("no deductive obligation: LAPACK-based floating-point code; every result of this check is bounded")


def replay(path):
    from vf.common import Run

    with open(path) as f:
        rep = json.load(f)
    r = Run("C15", "quick", int((rep.get("replay") or {}).get("seed") or 0))
    check(r)
    return 1 if r.violations else 0
