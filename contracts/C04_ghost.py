"""Ghost lemmas about the product spec functions PRODC / PMAX, proved by pyvc itself (inductions
written as ghost loops with invariants; DESIGN 2.1 `Lemmas (a)`).  No code of /repo is involved."""
from __future__ import annotations

import ast

from contracts import C04_native as N
from vf import pyvc

SEQ = ("Seq", "Int")

N.LEMMAS.update({
    "C_nonneg": dict(params=[("n", "Int"), ("k", "Int")], lean="PiquassoLemmas.C_nonneg", formula="C(n, k) >= 0"),
})

GHOST_SRC = '''
def prodc_le_pmax(r, g, k):
    i = 0
    while i < k:
        i = i + 1
    return 0


def vsumn_zero(v, n):
    i = 0
    while i < n:
        i = i + 1
    return 0


def prodc_update(r, g, g2, ci, n):
    i = 0
    while i < n:
        i = i + 1
    return 0
'''

PRODC_LE_PMAX = dict(
    params=[("r", SEQ), ("g", SEQ), ("k", "Int")], returns="Int",
    requires=["k >= 0", "forall(lambda j: 0 <= r[j + 1], 0, k)", "len(r) >= k + 1", "len(g) >= k"],
    ensures=["1 <= PMAX(r, k)", "0 <= PRODC(r, g, k)", "PRODC(r, g, k) <= PMAX(r, k)"],
    loops={"0": dict(invariant=["0 <= i", "i <= k", "1 <= PMAX(r, i)", "0 <= PRODC(r, g, i)", "PRODC(r, g, i) <= PMAX(r, i)"])},
    ghost={
        "loop[0].before": ["use('PMAX_unfold', r, 0)", "use('PRODC_unfold', r, g, 0)"],
        "loop[0].start": ["use('PMAX_unfold', r, i + 1)", "use('PRODC_unfold', r, g, i + 1)",
                          "use('C_le_middle', r[i + 1], g[i])", "use('C_nonneg', r[i + 1], g[i])",
                          "use('C_pos', r[i + 1], r[i + 1] // 2)",
                          "use('mul_le', PRODC(r, g, i), C(r[i + 1], g[i]), PMAX(r, i), C(r[i + 1], r[i + 1] // 2))"],
    },
)

PRODC_UPDATE = dict(
    params=[("r", SEQ), ("g", SEQ), ("g2", SEQ), ("ci", "Int"), ("n", "Int")], returns="Int",
    requires=["0 <= ci", "ci < n", "forall(lambda j: implies(j != ci, g2[j] == g[j]), 0, n)", "len(r) >= n + 1", "len(g) >= n",
              "len(g2) >= n"],
    ensures=["PRODC(r, g2, n) * C(r[ci + 1], g[ci]) == PRODC(r, g, n) * C(r[ci + 1], g2[ci])"],
    loops={"0": dict(invariant=[
        "0 <= i", "i <= n",
        "implies(i <= ci, PRODC(r, g2, i) == PRODC(r, g, i))",
        "implies(i > ci, PRODC(r, g2, i) * C(r[ci + 1], g[ci]) == PRODC(r, g, i) * C(r[ci + 1], g2[ci]))"])},
    ghost={
        "loop[0].before": ["use('PRODC_unfold', r, g, 0)", "use('PRODC_unfold', r, g2, 0)"],
        "loop[0].start": ["use('PRODC_unfold', r, g, i + 1)", "use('PRODC_unfold', r, g2, i + 1)"],
    },
)


VSUMN_ZERO = dict(
    params=[("v", SEQ), ("n", "Int")], returns="Int",
    requires=["0 <= n", "forall(lambda j: v[j] == 0, 0, n)"], ensures=["VSUMN(v, n) == 0"],
    loops={"0": dict(invariant=["0 <= i", "i <= n", "VSUMN(v, i) == 0"])},
    ghost={"loop[0].before": ["use('VSUMN_unfold', v, 0)"], "loop[0].start": ["use('VSUMN_unfold', v, i + 1)"]},
)


def check(run):
    tree = ast.parse(GHOST_SRC)
    for fn, contract in (("prodc_le_pmax", PRODC_LE_PMAX), ("prodc_update", PRODC_UPDATE), ("vsumn_zero", VSUMN_ZERO)):
        node = next(n for n in tree.body if isinstance(n, ast.FunctionDef) and n.name == fn)
        fid = f"contracts/C04_ghost.py:{fn}"
        res = N.verify_translated(run, fid, node, ast.unparse(node), contract, {})
        N.report(run, res)
