"""Bounded stand-in for C14 (rtc): dimensionless observables of the real GaussianState at several
hbar on random physical states.  Reported under coverage.bounded, never counted as proved."""
import hashlib

import numpy as np

HBARS = (0.3, 1.0, 2.0, 5.0)


def _random_program(pq, rng, d, mixed, displaced):
    n = d + (1 if mixed else 0)
    instr = [pq.Vacuum()]
    for j in range(n):
        instr.append(pq.Squeezing(r=float(rng.uniform(0.1, 0.6)), phi=float(rng.uniform(0, 6))).on_modes(j))
    for _ in range(2):
        for j in range(n - 1):
            instr.append(pq.Beamsplitter(theta=float(rng.uniform(0, 3)), phi=float(rng.uniform(0, 6))).on_modes(j, j + 1))
    if displaced:
        for j in range(n):
            instr.append(pq.Displacement(r=float(rng.uniform(0.1, 0.8)), phi=float(rng.uniform(0, 6))).on_modes(j))
    return n, instr


def _observables(pq, state, other, d):
    out = {}
    out["purity"] = state.get_purity()
    out["fidelity"] = state.fidelity(other)
    out["parity"] = state.get_parity_operator_expectation_value()
    out["phaseshifter"] = state.get_phaseshifter_expectation_value([0.3 + 0.2 * i for i in range(d)])
    out["fock_probabilities"] = np.array(state.fock_probabilities)
    out["threshold"] = np.array([state.get_threshold_detection_probability(tuple((k >> i) & 1 for i in range(d)))
                                 for k in range(2 ** d)])
    out["mean_photon_number"] = state.mean_photon_number()
    out["density_matrix"] = np.array(state.density_matrix)
    return out


def check(run):
    import piquasso as pq

    rng = np.random.default_rng(run.seed + 14)
    n_cases = 6 if run.tier == "quick" else 40
    evaluations, distinct, failures = 0, set(), 0
    worst = {}
    for case in range(n_cases):
        d = 1 + case % (2 if run.tier == "quick" else 3)
        mixed, displaced = bool(case & 1), bool(case & 2)
        n, instr = _random_program(pq, rng, d, mixed, displaced)
        n2, instr2 = _random_program(pq, rng, d, False, displaced)
        ref = None
        for hbar in HBARS:
            cfg = pq.Config(hbar=hbar, cutoff=4, seed_sequence=1)
            st_ = pq.GaussianSimulator(d=n, config=cfg).execute_instructions(instr, shots=1).state
            if mixed:
                st_ = st_.reduced(tuple(range(d)))
            ot = pq.GaussianSimulator(d=n2, config=cfg).execute_instructions(instr2, shots=1).state
            obs = _observables(pq, st_, ot, d)
            evaluations += len(obs)
            if ref is None:
                ref = obs
                continue
            for k, v in obs.items():
                err = float(np.max(np.abs(np.asarray(v) - np.asarray(ref[k]))))
                worst[k] = max(worst.get(k, 0.0), err)
                if err > 1e-7 * max(1.0, float(np.max(np.abs(np.asarray(ref[k]))))):
                    failures += 1
                    name = f"C14/bounded/hbar-independence/{k}"
                    run.failed(name, "rtc", "run-time-contract",
                               what=f"{k} differs between hbar={HBARS[0]} and hbar={hbar} by {err:.3e} "
                                    f"(d={d}, mixed={mixed}, displaced={displaced}, case={case}, seed={run.seed})",
                               counterexample={"case": case, "d": d, "mixed": mixed, "displaced": displaced,
                                               "hbar": [HBARS[0], hbar], "seed": run.seed},
                               replay={"kind": "rtc", "module": "contracts.C14_bounded", "case": case},
                               reproduced=True, observed={"abs_diff": err})
        distinct.add(hashlib.sha1(repr((d, mixed, displaced, [repr(i) for i in instr])).encode()).hexdigest())
    run.bounded_result("C14/bounded/hbar-independence-of-observables", domain="random Gaussian programs "
                       "(squeezers, beamsplitter mesh, optional displacement, optional partial trace), observables "
                       "purity/fidelity/parity/phaseshifter/fock probabilities/threshold/mean photon number/density matrix",
                       bound=f"{n_cases} states, d<=3, hbar in {HBARS}, cutoff 4, tol 1e-7 (relative)", evaluations=evaluations,
                       distinct=len(distinct), failures=failures, note=f"worst abs diffs: { {k: float(f'{v:.2e}') for k, v in worst.items()} }")
