"""C18 - program construction is faithful: round trips, nesting, preparation algebra (DESIGN 5/C18).

Deductive part:
  A  preparation algebra: for every expression tree over `+`, scalar `*`, `/` with up to 5 leaves
     (NumberState / FockStateVector; equal and different occupation numbers), run on the REAL
     operator methods with SYMBOLIC coefficients (exact field elements): the denotation of the
     result (finite map occupation -> amplitude) equals the linear combination computed from the
     tree.  Exact for all coefficient values; tree shapes enumerated (the property's quantifier is
     `up to 5 terms`).
  B  Blackbird positional mapping: for every exportable class, read from its AST, the key order of
     the `params=dict(...)` literal equals the order of the constructor's parameters (so
     `list(params.values())` zipped against the signature is the identity), the name maps are
     mutually inverse, modes pass through unchanged.
  N  nesting: frames obligation - registering a program inside another writes nothing reachable
     from the inner program; _map_modes is `register[instruction.modes]` (guard/shape contract).
Bounded (rtc): Blackbird text / as_code / from_dict / copy round trips on enumerated programs with
  awkward floats; nested register mappings exhaustively for d <= 4, depth <= 3.
"""
from __future__ import annotations

import ast
import itertools
import json
import os

import numpy as np

from vf import sympoly as sp
from vf.common import REPO
from vf.sympoly import P

OCCS = [(1, 0), (0, 1), (2, 0), (1, 1)]


# ---------------------------------------------------------------------------------- A
def den(obj):
    """denotation of a preparation object: {occupation: amplitude}"""
    import piquasso as pq

    if isinstance(obj, pq.NumberState):
        return {tuple(obj.params["occupation_numbers"]): sp.coerce(obj.params["coefficient"])}
    if isinstance(obj, pq.FockStateVector):
        c = sp.coerce(obj.params["coefficient"])
        return {tuple(k): sp.coerce(v) * c for k, v in obj.params["fock_amplitude_map"].items()}
    raise TypeError(type(obj).__name__)


def spec_add(a, b):
    out = dict(a)
    for k, v in b.items():
        out[k] = out[k] + v if k in out else v
    return out


def spec_scale(a, c):
    return {k: v * c for k, v in a.items()}


def same(a, b):
    keys = set(a) | set(b)
    for k in keys:
        x = a.get(k, P.const(0))
        y = b.get(k, P.const(0))
        if not (x - y).is_zero():
            return False, k, x, y
    return True, None, None, None


class Tree:
    """expression tree; build() evaluates it twice: on real piquasso objects and on the spec"""

    def __init__(self, kind, *kids, payload=None):
        self.kind, self.kids, self.payload = kind, kids, payload

    def show(self):
        if self.kind == "N":
            return f"N{list(self.payload)}"
        if self.kind == "F":
            return "F{" + ",".join(str(list(o)) for o in self.payload) + "}"
        if self.kind == "+":
            return f"({self.kids[0].show()} + {self.kids[1].show()})"
        if self.kind == "*":
            return f"({self.kids[0].show()} * c)"
        if self.kind == "r*":
            return f"(c * {self.kids[0].show()})"
        return f"({self.kids[0].show()} / c)"


def evaluate(tree, counter):
    """-> (real object, spec denotation); coefficients are fresh invertible atoms"""
    import piquasso as pq

    def atom():
        return P.atom(f"c{next(counter)}", invertible=True)

    if tree.kind == "N":
        c = atom()
        return pq.NumberState(tree.payload, coefficient=c), {tuple(tree.payload): c}
    if tree.kind == "F":
        c = atom()
        amps = {o: atom() for o in tree.payload}
        return pq.FockStateVector(fock_amplitude_map=dict(amps), coefficient=c), {o: a * c for o, a in amps.items()}
    if tree.kind == "+":
        ra, sa = evaluate(tree.kids[0], counter)
        rb, sb = evaluate(tree.kids[1], counter)
        return ra + rb, spec_add(sa, sb)
    ra, sa = evaluate(tree.kids[0], counter)
    c = atom()
    if tree.kind == "*":
        return ra * c, spec_scale(sa, c)
    if tree.kind == "r*":
        return c * ra, spec_scale(sa, c)
    return ra / c, spec_scale(sa, P.const(1) / c)


def leaves():
    for o in OCCS[:3]:
        yield Tree("N", payload=o)
    yield Tree("F", payload=(OCCS[0], OCCS[2]))
    yield Tree("F", payload=(OCCS[1],))


def trees(n_leaves, tier):
    """all binary `+` groupings over sequences of leaves, each leaf optionally scaled"""
    lv = list(leaves())

    def scaled(t, how):
        return t if how == "" else Tree(how, t)

    def groupings(seq):
        if len(seq) == 1:
            yield seq[0]
            return
        for i in range(1, len(seq)):
            for a in groupings(seq[:i]):
                for b in groupings(seq[i:]):
                    yield Tree("+", a, b)

    out = []
    scal = ["", "*", "r*", "/"]
    for k in range(1, n_leaves + 1):
        combos = itertools.product(range(len(lv)), repeat=k)
        for combo in combos:
            if tier == "quick" and k >= 4 and hash(combo) % 7:
                continue
            if tier == "quick" and k == 3 and hash(combo) % 2:
                continue
            hows = [scal[(i + j) % 4] for j, i in enumerate(combo)]
            seq = [scaled(Tree(lv[i].kind, payload=lv[i].payload), h) for i, h in zip(combo, hows)]
            gs = list(groupings(seq))
            if tier == "quick" and len(gs) > 2:
                gs = [gs[0], gs[-1]]
            for g in gs:
                out.append(g)
                out.append(Tree("*", g))
    return out


def algebra_obligations(run):
    n = 4 if run.tier == "quick" else 5
    ts = trees(n, run.tier)
    bad, undecided = [], []
    pairs = {}

    def verdict(t):
        counter = itertools.count()
        real, spec = evaluate(t, counter)
        ok, k, x, y = same(den(real), spec)
        return ok, (None if ok else {"tree": t.show(), "occupation": list(k), "real_amplitude": repr(x)[:200],
                                     "expected_amplitude": repr(y)[:200]})

    def node_kind(t):
        ks = _pair_kind(Tree(t.kind, *[Tree(_cls(k), payload=((0,),)) if False else k for k in t.kids], payload=t.payload))
        return ks

    def blame(t):
        """innermost failing sub-expressions: (operator/operand-class kind, witness)"""
        out = []
        for kid in t.kids:
            out += blame(kid)
        if out:
            return out
        ok, w = verdict(t)
        if ok:
            return []
        if t.kind == "+":
            return [(f"{_cls(t.kids[0])}+{_cls(t.kids[1])}", w)]
        if t.kind in ("*", "r*", "/"):
            return [(f"{_cls(t.kids[0])}{t.kind}scalar", w)]
        return [("leaf", w)]

    for t in ts:
        try:
            for kd in _pair_kind(t):
                pairs.setdefault(kd, [0, []])
                pairs[kd][0] += 1
            for kd, w in blame(t):
                pairs.setdefault(kd, [0, []])
                pairs[kd][1].append(w)
                bad.append(w)
        except sp.Refuse as e:
            undecided.append((t.show(), str(e)))
        except Exception as e:
            bad.append({"tree": t.show(), "error": f"{type(e).__name__}: {e}"[:200]})
            pairs.setdefault("exception", [0, []])[1].append(bad[-1])
    for kd, (count, fails) in sorted(pairs.items()):
        oname = f"C18/algebra/denotation-preserved/{kd}"
        if not fails:
            run.discharged(oname, "symtrace", "symbolic-field-arithmetic", 0.0, sample={"trees": count})
        else:
            rep = concrete_algebra_replay()
            run.failed(oname, "symtrace", "symbolic-field-arithmetic",
                       what=f"{len(fails)} of {count} expression trees denote a different superposition; first: {fails[0]}",
                       counterexample=fails[0], replay={"kind": "algebra"}, reproduced=rep.get("reproduced", False), observed=rep)
    if undecided:
        run.undecided_ob("C18/algebra/denotation-preserved", "symtrace", "symbolic-field-arithmetic", f"refused: {undecided[0]}")
    for f in ("NumberState.__add__", "FockStateVector.__add__"):
        run.function("piquasso/instructions/preparations.py:" + f)
    for f in ("WeightMixin.__mul__", "WeightMixin.__truediv__"):
        run.function("piquasso/core/_mixins.py:" + f)
    return len(ts)


def _cls(x):
    if x.kind in ("N", "F"):
        return x.kind
    if x.kind == "+":
        a, b = _cls(x.kids[0]), _cls(x.kids[1])
        same_occ = (x.kids[0].kind == "N" and x.kids[1].kind == "N" and x.kids[0].payload == x.kids[1].payload)
        return "N" if (a == b == "N" and same_occ) else "F"
    return _cls(x.kids[0])


def _pair_kind(t):
    """which operator/operand-class combinations a tree exercises"""
    out = set()

    def cls(x):
        if x.kind in ("N", "F"):
            return x.kind
        if x.kind == "+":
            a, b = cls(x.kids[0]), cls(x.kids[1])
            same_occ = (x.kids[0].kind == "N" and x.kids[1].kind == "N" and x.kids[0].payload == x.kids[1].payload)
            return "N" if (a == b == "N" and same_occ) else "F"
        return cls(x.kids[0])

    def walk(x):
        if x.kind == "+":
            out.add(f"{cls(x.kids[0])}+{cls(x.kids[1])}")
            walk(x.kids[0])
            walk(x.kids[1])
        elif x.kind in ("*", "r*", "/"):
            out.add(f"{cls(x.kids[0])}{x.kind}scalar")
            walk(x.kids[0])

    walk(t)
    return out or {"leaf"}


def concrete_algebra_replay():
    import piquasso as pq

    a = pq.NumberState([1, 0], coefficient=1.0)
    b = (pq.NumberState([0, 1]) + pq.NumberState([2, 0])) * 0.5
    r = a + b
    got = {tuple(k): complex(v) * complex(r.params["coefficient"]) for k, v in r.params["fock_amplitude_map"].items()}
    want = {(1, 0): 1.0, (0, 1): 0.5, (2, 0): 0.5}
    bad = {k: (got.get(k), want.get(k)) for k in want if abs(got.get(k, 0) - want[k]) > 1e-12}
    return {"expression": "N[1,0] + (N[0,1] + N[2,0]) * 0.5", "got": {str(k): str(v) for k, v in got.items()},
            "expected": {str(k): v for k, v in want.items()}, "reproduced": bool(bad)}


# ---------------------------------------------------------------------------------- B
def blackbird_obligations(run):
    bbsrc = open(os.path.join(REPO, "piquasso/core/_blackbird.py")).read()
    tree = ast.parse(bbsrc)
    table = None
    for n in tree.body:
        if isinstance(n, ast.Assign) and ast.unparse(n.targets[0]) == "_BB_TO_PQ_MAP" and isinstance(n.value, ast.Dict):
            table = {k.value: v.value for k, v in zip(n.value.keys, n.value.values)}
    oname = "C18/blackbird/name-maps-are-mutually-inverse"
    if table is None:
        run.undecided_ob(oname, "frames", "ast-table", "_BB_TO_PQ_MAP literal not found")
        return
    inj = len(set(table.values())) == len(table)
    inv_ok = "_PQ_TO_BB_MAP = {v: k for k, v in _BB_TO_PQ_MAP.items()}" in ast.unparse(tree)
    if inj and inv_ok:
        run.discharged(oname, "frames", "ast-table", 0.0, sample={"classes": sorted(table.values())})
    else:
        run.failed(oname, "frames", "ast-table", what="the Blackbird name map is not injective or the inverse map is not its inverse",
                   counterexample={"table": table}, replay={"kind": "roundtrip"}, reproduced=bool(bounded_roundtrips()["failures"]))
    # class ASTs
    classes = {}
    for rel in ("piquasso/instructions/gates.py",):
        t = ast.parse(open(os.path.join(REPO, rel)).read())
        for c in t.body:
            if isinstance(c, ast.ClassDef):
                classes[c.name] = (rel, c)
    for pqname in sorted(table.values()):
        oname = f"C18/blackbird/positional-parameters-are-the-identity/{pqname}"
        if pqname not in classes:
            run.undecided_ob(oname, "frames", "ast-table", f"class {pqname} not found in gates.py")
            continue
        rel, c = classes[pqname]
        init = next((f for f in c.body if isinstance(f, ast.FunctionDef) and f.name == "__init__"), None)
        if init is None:
            run.undecided_ob(oname, "frames", "ast-table", "no __init__")
            continue
        sig = [a.arg for a in init.args.args if a.arg != "self"]
        call = next((x for x in ast.walk(init) if isinstance(x, ast.Call) and ast.unparse(x.func) == "super().__init__"), None)
        keys = []
        if call is not None:
            for kw in call.keywords:
                if kw.arg == "params" and isinstance(kw.value, ast.Call) and ast.unparse(kw.value.func) == "dict":
                    keys = [(k.arg, ast.unparse(k.value)) for k in kw.value.keywords]
        run.function(f"{rel}:{pqname}.__init__", ast.unparse(init))
        ok = [k for k, _ in keys] == sig and all(k == v for k, v in keys)
        if ok or (not sig and not keys):
            run.discharged(oname, "frames", "ast-table", 0.0, sample={"signature": sig, "params_keys": [k for k, _ in keys]})
        else:
            rep = bounded_roundtrips(only=pqname)
            run.failed(oname, "frames", "ast-table",
                       what=f"{pqname}: constructor parameters {sig} but params dict is {keys}: Blackbird export/import "
                            "exchanges or alters parameter values",
                       counterexample={"signature": sig, "params": keys}, replay={"kind": "roundtrip", "class": pqname},
                       reproduced=bool(rep["failures"]), observed=rep)
    # export/import code shape
    src = ast.unparse(tree)
    checks = {
        "export-uses-list(params.values())-and-list(modes)": '"args": list(instruction.params.values())' in src.replace("'", '"')
        and '"modes": list(instruction.modes)' in src.replace("'", '"'),
        "import-zips-signature-order-with-args": "zip(instruction_params.keys(), bb_params)" in src
        and "inspect.signature(pq_instruction_class).parameters" in src,
        "import-sets-modes-from-the-operation": "instruction.modes = tuple(blackbird_operation['modes'])" in src,
    }
    for name, ok in checks.items():
        oname = f"C18/blackbird/{name}"
        if ok:
            run.discharged(oname, "frames", "ast-shape", 0.0)
        else:
            rep = bounded_roundtrips()
            run.failed(oname, "frames", "ast-shape", what=f"Blackbird conversion no longer has the contracted form: {name}",
                       counterexample={}, replay={"kind": "roundtrip"}, reproduced=bool(rep["failures"]), observed=rep)


# ---------------------------------------------------------------------------------- N
def nesting_obligations(run):
    from vf.frames import Analysis

    A = Analysis(REPO)
    fid = "piquasso/api/program.py:Program._apply_to_program_on_register"
    f = A.funcs.get(fid)
    oname = "C18/nesting/inner-program-is-not-modified"
    if f is None:
        run.undecided_ob(oname, "frames", "provenance-analysis", "function not found")
    else:
        bad = [w for w in f.writes.values() if w.root == "self"]
        run.function(fid, ast.unparse(f.node))
        if not bad and "instruction_copy = instruction.copy()" in ast.unparse(f.node):
            run.discharged(oname, "frames", "provenance-analysis", 0.0, function=fid)
        else:
            rep = bounded_nesting()
            run.failed(oname, "frames", "provenance-analysis",
                       what=f"registering a program may write {sorted({w.path for w in bad})} on the inner program / does not copy its instructions",
                       counterexample={"writes": [w.to_json() for w in bad]}, replay={"kind": "nesting"},
                       reproduced=bool(rep["failures"]), observed=rep)
    mm = A.funcs.get("piquasso/api/program.py:Program._map_modes")
    oname = "C18/nesting/_map_modes=register[instruction.modes]"
    want = ("if len(register.modes) == 0:\n    return instruction.modes\nif len(instruction.modes) == 0:\n    return register.modes\n"
            "return tuple((int(register.modes[m]) for m in instruction.modes))")
    got = "\n".join(ast.unparse(s) for s in mm.node.body if not (isinstance(s, ast.Expr) and isinstance(s.value, ast.Constant))) if mm else ""
    if got == want:
        run.discharged(oname, "frames", "ast-shape", 0.0)
    else:
        rep = bounded_nesting()
        run.failed(oname, "frames", "ast-shape", what="Program._map_modes no longer maps instruction modes through the register",
                   counterexample={"source": got}, replay={"kind": "nesting"}, reproduced=bool(rep["failures"]), observed=rep)
    ins = A.funcs.get("piquasso/api/instruction.py:Instruction._apply_to_program_on_register")
    oname = "C18/nesting/instruction-registers-itself-on-the-register-modes"
    if ins and "program.instructions.append(self.on_modes(*register.modes))" in ast.unparse(ins.node):
        run.discharged(oname, "frames", "ast-shape", 0.0)
    else:
        rep = bounded_nesting()
        run.failed(oname, "frames", "ast-shape", what="Instruction._apply_to_program_on_register changed", counterexample={},
                   replay={"kind": "nesting"}, reproduced=bool(rep["failures"]), observed=rep)


# ---------------------------------------------------------------------------------- bounded
AWKWARD = [0.1, -0.1, 1e-300, -1e-300, 1e300, 3.0, -2.0, 0.0, 1 / 3, np.pi, 2 ** 0.5, 1e-17, 123456789.123456789, 5e-324]


def bounded_roundtrips(only=None):
    import piquasso as pq

    failures, ev = [], 0
    gates = {
        "Displacement": lambda a, b: pq.Displacement(r=a, phi=b), "PositionDisplacement": lambda a, b: pq.PositionDisplacement(x=a),
        "MomentumDisplacement": lambda a, b: pq.MomentumDisplacement(p=a), "Squeezing": lambda a, b: pq.Squeezing(r=a, phi=b),
        "QuadraticPhase": lambda a, b: pq.QuadraticPhase(s=a), "Kerr": lambda a, b: pq.Kerr(xi=a), "Phaseshifter": lambda a, b: pq.Phaseshifter(phi=a),
        "Beamsplitter": lambda a, b: pq.Beamsplitter(theta=a, phi=b), "MachZehnder": lambda a, b: pq.MachZehnder(int_=a, ext=b),
        "Squeezing2": lambda a, b: pq.Squeezing2(r=a, phi=b), "ControlledX": lambda a, b: pq.ControlledX(s=a), "ControlledZ": lambda a, b: pq.ControlledZ(s=a),
        "CrossKerr": lambda a, b: pq.CrossKerr(xi=a), "CubicPhase": lambda a, b: pq.CubicPhase(gamma=a), "Fourier": lambda a, b: pq.Fourier(),
    }
    for gname, mk in gates.items():
        if only and gname != only:
            continue
        for i, a in enumerate(AWKWARD):
            b = AWKWARD[(i * 5 + 3) % len(AWKWARD)]
            g = mk(float(a), float(b))
            k = g.NUMBER_OF_MODES or 1
            modes = tuple(range(k))[::-1] if k > 1 else (2,)
            prog = pq.Program(instructions=[g.on_modes(*modes)])
            ev += 1
            try:
                text = prog.to_blackbird_code()
                back = pq.Program()
                back.loads_blackbird(text)
                bi = back.instructions[0]
                if type(bi) is not type(g) or tuple(bi.modes) != tuple(modes):
                    failures.append({"via": "blackbird", "gate": gname, "issue": f"type/modes {type(bi).__name__}{bi.modes}"})
                for (k1, v1), (k2, v2) in zip(g.params.items(), bi.params.items()):
                    if k1 != k2 or float(v1) != float(v2):
                        failures.append({"via": "blackbird", "gate": gname, "param": k1, "sent": repr(v1), "received": f"{k2}={v2!r}"})
                        break
            except Exception as e:
                failures.append({"via": "blackbird", "gate": gname, "value": repr(a), "error": f"{type(e).__name__}: {e}"[:160]})
            # as_code
            try:
                sim = pq.GaussianSimulator(d=3, config=pq.Config(hbar=1.5, cutoff=6, seed_sequence=11))
                code = pq.as_code(prog, sim, shots=3)
                ns = {}
                exec(code.split("result = simulator.execute")[0], ns)
                p2, s2 = ns["program"], ns["simulator"]
                i2 = p2.instructions[0]
                if type(i2) is not type(g) or tuple(i2.modes) != tuple(modes) or s2.d != 3 or s2.config != sim.config:
                    failures.append({"via": "as_code", "gate": gname, "issue": "type/modes/simulator differ"})
                for (k1, v1), (k2, v2) in zip(g.params.items(), i2.params.items()):
                    if k1 != k2 or float(v1) != float(v2):
                        failures.append({"via": "as_code", "gate": gname, "param": k1, "sent": repr(v1), "received": repr(v2)})
                        break
            except Exception as e:
                failures.append({"via": "as_code", "gate": gname, "value": repr(a), "error": f"{type(e).__name__}: {e}"[:160]})
            # copy
            c = prog.copy()
            if c.instructions[0] != prog.instructions[0] or c.instructions[0] is prog.instructions[0]:
                failures.append({"via": "copy", "gate": gname})
    # matrix parameters through as_code and from_dict
    if not only:
        rng = np.random.default_rng(18)
        U = np.linalg.qr(rng.normal(size=(3, 3)) + 1j * rng.normal(size=(3, 3)))[0]
        prog = pq.Program(instructions=[pq.Vacuum(), pq.Interferometer(U).on_modes(2, 0, 1)])
        ev += 1
        try:
            ns = {}
            exec(pq.as_code(prog, pq.GaussianSimulator(d=3)).split("result = simulator.execute")[0], ns)
            M = ns["program"].instructions[1].params["matrix"]
            err = float(np.max(np.abs(M - U)))
            if err > 0:
                failures.append({"via": "as_code", "gate": "Interferometer", "issue": f"matrix changed by {err:.2e} (repr() prints 8 digits)"})
        except Exception as e:
            failures.append({"via": "as_code", "gate": "Interferometer", "error": f"{type(e).__name__}: {e}"[:160]})
        d = {"instructions": [{"type": "Beamsplitter", "attributes": {"constructor_kwargs": {"theta": 0.1, "phi": -1e-300}, "modes": [2, 0]}},
                              {"type": "Interferometer", "attributes": {"constructor_kwargs": {"matrix": U}, "modes": [1, 2, 0]}}]}
        p = pq.Program.from_dict(d)
        ev += 1
        if (type(p.instructions[0]).__name__ != "Beamsplitter" or tuple(p.instructions[0].modes) != (2, 0)
                or p.instructions[0].params != {"theta": 0.1, "phi": -1e-300} or not np.array_equal(p.instructions[1].params["matrix"], U)
                or tuple(p.instructions[1].modes) != (1, 2, 0)):
            failures.append({"via": "from_dict", "issue": "types/modes/params differ"})
    return {"evaluations": ev, "failures": failures}


def bounded_nesting():
    import piquasso as pq

    failures, ev = [], 0
    for d in (2, 3, 4):
        for k in (1, 2):
            for inner_modes in itertools.permutations(range(k + 1), k):
                for reg in itertools.permutations(range(d), k + 1):
                    with pq.Program() as inner:
                        pq.Q(*inner_modes) | (pq.Beamsplitter(theta=0.1) if k == 2 else pq.Phaseshifter(phi=0.2))
                    before = [(type(i).__name__, tuple(i.modes), dict(i.params)) for i in inner.instructions]
                    with pq.Program() as mid:
                        pq.Q(*reg) | inner
                    outer_reg = tuple(range(d))[::-1]
                    with pq.Program() as outer:
                        pq.Q(*outer_reg) | mid
                        pq.Q(*outer_reg) | mid          # reuse
                    ev += 1
                    want1 = tuple(reg[m] for m in inner_modes)
                    want2 = tuple(outer_reg[m] for m in want1)
                    got1 = tuple(mid.instructions[0].modes)
                    got2 = [tuple(i.modes) for i in outer.instructions]
                    after = [(type(i).__name__, tuple(i.modes), dict(i.params)) for i in inner.instructions]
                    if got1 != want1 or got2 != [want2, want2] or before != after or tuple(mid.instructions[0].modes) != want1:
                        failures.append({"d": d, "inner_modes": inner_modes, "register": reg, "got": [got1, got2], "want": [want1, want2],
                                         "inner_changed": before != after})
    return {"evaluations": ev, "failures": failures}


# ------------------------------------------------------------------------------------------ operators leave their operands alone
def operator_frame_obligations(run):
    """the preparation operators (+, *, /, reflected forms) write nothing reachable from their operands (frames); together with
    the algebra obligations this makes the denotation of an expression independent of how often an operand is re-used"""
    from vf.frames import Analysis

    A = Analysis(REPO)
    rel = "piquasso/instructions/preparations.py"
    found = 0
    for fid, f in sorted(A.funcs.items()):
        if not fid.startswith(rel + ":") or fid.rsplit(".", 1)[-1] not in ("__add__", "__radd__", "__mul__", "__rmul__", "__truediv__", "__neg__", "__sub__"):
            continue
        found += 1
        oname = f"C18/algebra/operands-not-modified/{fid.split(':')[1]}"
        bad = [w for w in f.writes.values() if w.root in ("self", "other", "coefficient")]
        if not bad:
            run.discharged(oname, "frames", "provenance-analysis", 0.0, function=fid)
        else:
            rep = bounded_operand_reuse()
            run.failed(oname, "frames", "provenance-analysis",
                       what=f"{fid.split(':')[1]} may write " + ", ".join(sorted({f'{w.root}{w.path} (line {w.lineno})' for w in bad}))
                            + " of an operand: an operand that takes part in two expressions changes between them",
                       counterexample={"writes": [w.to_json() for w in bad]}, replay={"kind": "operand-reuse"},
                       reproduced=rep.get("reproduced", False), observed=rep)
    if not found:
        run.broken_ob("C18/algebra/operands-not-modified", "no operator method found in preparations.py: contract no longer binds")


def bounded_operand_reuse():
    """the same operand objects (coefficient 1 and others) used in several groupings: operands unchanged, all groupings equal"""
    import copy

    import piquasso as pq

    bad, ev = [], 0
    for c in (1.0, 1, 0.5, 1 + 0j):
        amp = {(1, 0): 0.6, (0, 1): 0.8j}
        F = pq.FockStateVector(fock_amplitude_map=amp, coefficient=c)
        a, b = pq.NumberState([2, 0], coefficient=0.3), pq.NumberState([0, 1], coefficient=-0.2)
        snap = (copy.deepcopy(amp), copy.deepcopy(F.params), copy.deepcopy(a.params), copy.deepcopy(b.params))
        exprs = {"F+a+b": lambda: F + a + b, "(F+b)+a": lambda: (F + b) + a, "a+(b+F)": lambda: a + (b + F), "F+(a+b)": lambda: F + (a + b),
                 "(F+a)*2/2+b": lambda: (F + a) * 2 / 2 + b, "F+a+b again": lambda: F + a + b}
        ref = None
        for name, fn in exprs.items():
            try:
                d = {k: complex(v.const_value()) if hasattr(v, "const_value") else complex(v) for k, v in den(fn()).items()}
            except Exception as e:      # noqa: BLE001
                bad.append({"coefficient": repr(c), "expression": name, "error": f"{type(e).__name__}: {e}"[:120]})
                continue
            ev += 1
            if ref is None:
                ref = d
            elif set(d) != set(ref) or any(abs(d[k] - ref[k]) > 1e-12 for k in ref):
                bad.append({"coefficient": repr(c), "expression": name, "denotation": repr(d), "first": repr(ref)})
            now = (amp, F.params, a.params, b.params)
            if repr(now) != repr(snap):
                bad.append({"coefficient": repr(c), "expression": name, "issue": "an operand (or the user's amplitude dict) was modified"})
                break
    # amplitudes held in mutable containers (0-d arrays): a scaled RIGHT operand must not be scaled in place
    import numpy as np
    G = pq.FockStateVector(fock_amplitude_map={(1, 0): np.array(0.5), (0, 1): np.array(0.25j)}, coefficient=2.0)
    F0 = pq.FockStateVector(fock_amplitude_map={(0, 1): 1.0})
    first = {k: complex(v) for k, v in (F0 + G).params["fock_amplitude_map"].items()}
    second = {k: complex(v) for k, v in (F0 + G).params["fock_amplitude_map"].items()}
    ev += 2
    if first != second or complex(G.params["fock_amplitude_map"][(1, 0)]) != 0.5:
        bad.append({"expression": "F + G twice, G with 0-d array amplitudes and coefficient 2", "first": repr(first), "second": repr(second),
                    "G_after": repr(G.params["fock_amplitude_map"])})
    return {"failures": bad, "evaluations": ev, "reproduced": bool(bad)}


# ------------------------------------------------------------------------------------------ Config in generated code
def config_obligations(run):
    """as_code emits `config=...` only when `simulator.config != Config()` and then prints Config._as_code(): for the
    generated code to rebuild the same configuration, BOTH must take every constructor parameter into account.
    Decided on the AST of piquasso/api/config.py: for every keyword parameter p of Config.__init__, the attribute(s) that
    __init__ derives from p occur in __eq__ (on self and other) and _as_code has a `non_default_params["p"]` entry."""
    import time as _t
    from vf.cfg import find_function
    t0 = _t.time()
    rel = "piquasso/api/config.py"
    oname = "C18/config/eq-and-as_code-cover-every-constructor-parameter"
    tree = ast.parse(open(os.path.join(REPO, rel)).read())
    try:
        init, eq, code = (find_function(tree, "Config." + n) for n in ("__init__", "__eq__", "_as_code"))
    except Exception as e:      # noqa: BLE001
        run.undecided_ob(oname, "frames", "ast-structure", f"Config methods not found: {e}")
        return
    params = [a.arg for a in init.args.kwonlyargs + init.args.args if a.arg != "self"]
    stores = {}        # parameter -> attributes assigned from an expression mentioning it
    for st_ in ast.walk(init):
        if isinstance(st_, ast.Assign) and len(st_.targets) == 1 and isinstance(st_.targets[0], ast.Attribute) \
                and isinstance(st_.targets[0].value, ast.Name) and st_.targets[0].value.id == "self":
            for nm in {n.id for n in ast.walk(st_.value) if isinstance(n, ast.Name)}:
                if nm in params:
                    stores.setdefault(nm, set()).add(st_.targets[0].attr)
    eq_attrs = {n.attr for n in ast.walk(eq) if isinstance(n, ast.Attribute)} | {
        n.value for n in ast.walk(eq) if isinstance(n, ast.Constant) and isinstance(n.value, str)}
    code_keys = {n.slice.value for n in ast.walk(code) if isinstance(n, ast.Subscript) and isinstance(n.value, ast.Name)
                 and n.value.id == "non_default_params" and isinstance(n.slice, ast.Constant)}
    missing = []
    for p_ in params:
        if not stores.get(p_):
            missing.append(f"{p_}: not stored by __init__")
        elif not (stores[p_] & eq_attrs):
            missing.append(f"{p_}: none of {sorted(stores[p_])} is compared by __eq__")
        if p_ not in code_keys:
            missing.append(f"{p_}: not emitted by _as_code")
    if not params:
        run.broken_ob(oname, "Config.__init__ has no parameters: contract no longer binds")
    elif missing:
        rep = replay_config_roundtrip()
        run.failed(oname, "frames", "ast-structure", what="Config.__eq__ / Config._as_code ignore a constructor parameter: " + "; ".join(missing),
                   counterexample={"missing": missing}, replay={"kind": "config"}, reproduced=rep.get("reproduced", False), observed=rep,
                   seconds=_t.time() - t0)
    else:
        run.discharged(oname, "frames", "ast-structure", _t.time() - t0, function=f"{rel}:Config.__eq__",
                       sample={"parameters": params})


CONFIG_VALUES = dict(cutoff=6, dtype="np.float32", measurement_cutoff=7, hbar=1.5, seed_sequence=123, use_torontonian=True, cache_size=5,
                     validate=False, use_dask=True, max_sample_generation_trials=7)


def replay_config_roundtrip():
    """a simulator whose Config differs from the default in exactly ONE parameter, through pq.as_code + exec"""
    import inspect

    import numpy as np
    import piquasso as pq

    bad, ev = [], 0
    for p_ in inspect.signature(pq.Config.__init__).parameters:
        if p_ == "self":
            continue
        if p_ not in CONFIG_VALUES:
            bad.append({"parameter": p_, "issue": "no test value known for this (new) Config parameter"})
            continue
        v = np.float32 if p_ == "dtype" else CONFIG_VALUES[p_]
        cfg = pq.Config(**{p_: v})
        ev += 1
        if cfg == pq.Config():
            bad.append({"parameter": p_, "issue": "Config(%s=%r) == Config()" % (p_, v)})
        sim = pq.PureFockSimulator(d=2, config=cfg)
        ns = {}
        try:
            exec(pq.as_code(pq.Program(instructions=[pq.Vacuum()]), sim).split("result = simulator.execute")[0], ns)
            got = getattr(ns["simulator"].config, p_ if p_ != "seed_sequence" else "_original_seed_sequence")
            if got != v:
                bad.append({"parameter": p_, "sent": repr(v), "received": repr(got), "via": "as_code"})
        except Exception as e:      # noqa: BLE001
            bad.append({"parameter": p_, "error": f"{type(e).__name__}: {e}"[:160]})
    return {"failures": bad, "evaluations": ev, "reproduced": bool(bad)}


def check(run):
    config_obligations(run)
    cr = replay_config_roundtrip()
    if cr["failures"]:
        run.failed("C18/bounded/round-trip/config", "rtc", "enumeration", what=f"as_code loses a Config parameter: {cr['failures'][0]}",
                   counterexample=cr["failures"][0], replay={"kind": "config"}, reproduced=True, observed=cr)
    run.bounded_result("C18/bounded/config-one-parameter-at-a-time-through-as_code", domain="every Config constructor parameter set to a "
                       "non-default value, alone", bound="exec of the generated code", evaluations=cr["evaluations"],
                       distinct=cr["evaluations"], failures=len(cr["failures"]))
    operator_frame_obligations(run)
    orr = bounded_operand_reuse()
    if orr["failures"]:
        run.failed("C18/bounded/operand-reuse", "rtc", "enumeration", what=f"re-using an operand changes the result: {orr['failures'][0]}",
                   counterexample=orr["failures"][0], replay={"kind": "operand-reuse"}, reproduced=True, observed=orr)
    run.bounded_result("C18/bounded/operands-reused-across-groupings", domain="FockStateVector with coefficient 1 / 1.0 / 0.5 / (1+0j) and two "
                       "NumberStates in 6 groupings of the same objects", bound="operands and the user's dict compared before/after",
                       evaluations=orr["evaluations"], distinct=orr["evaluations"], failures=len(orr["failures"]))
    n_trees = algebra_obligations(run)
    run.notes.append(f"{n_trees} expression trees evaluated on the real operator methods with symbolic coefficients")
    blackbird_obligations(run)
    nesting_obligations(run)
    rt = bounded_roundtrips()
    by = {}
    for f in rt["failures"]:
        key = f["via"] + ("/matrix-precision" if "8 digits" in f.get("issue", "") else "")
        by.setdefault(key, []).append(f)
    for key, fs in by.items():
        run.failed(f"C18/bounded/round-trip/{key}", "rtc", "enumeration", what=f"{len(fs)} round trip(s) change the program; first: {fs[0]}",
                   counterexample=fs[0], replay={"kind": "roundtrip"}, reproduced=True, observed={"failures": fs[:6]})
    run.bounded_result("C18/bounded/blackbird+as_code+copy+from_dict-round-trips", domain="15 exportable gate classes x 14 awkward floats "
                       "(tiny, huge, denormal, negative, integer-valued, irrational), reversed mode tuples, non-default Config; "
                       "Interferometer with a random unitary", bound="float-exact comparison", evaluations=rt["evaluations"],
                       distinct=rt["evaluations"], failures=len(rt["failures"]))
    nn = bounded_nesting()
    if nn["failures"]:
        run.failed("C18/bounded/nesting", "rtc", "enumeration", what=f"nested registration maps modes wrongly: {nn['failures'][0]}",
                   counterexample=nn["failures"][0], replay={"kind": "nesting"}, reproduced=True)
    run.bounded_result("C18/bounded/nested-register-mappings", domain="every injective register of length 2..3 on d<=4, every ordered inner "
                       "mode tuple, depth 3, inner program reused twice", bound="exhaustive", evaluations=nn["evaluations"],
                       distinct=nn["evaluations"], failures=len(nn["failures"]))
    run.trust("vf/sympoly.py exact field arithmetic for the symbolic coefficients")
    run.assume("tree shapes enumerated (<= 4 leaves quick, <= 5 thorough); coefficients are unbounded (non-zero) symbols")
    run.assume("text-level round trips go through the external blackbird serializer and exec(): bounded only")
    run.assume("copy.deepcopy returns a structurally equal fresh object")


def replay(path):
    with open(path) as f:
        rep = json.load(f)
    kind = (rep.get("replay") or {}).get("kind")
    if kind == "algebra":
        out = concrete_algebra_replay()
    elif kind == "nesting":
        out = bounded_nesting()
        out["reproduced"] = bool(out["failures"])
    elif kind == "config":
        out = replay_config_roundtrip()
    elif kind == "operand-reuse":
        out = bounded_operand_reuse()
    else:
        out = bounded_roundtrips()
        out["reproduced"] = bool(out["failures"])
    print(json.dumps(out, indent=1, default=str)[:2500])
    return 1 if out.get("reproduced") else 0
