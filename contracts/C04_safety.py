"""C04 `no undefined behaviour in the native code`, for the floating kernels whose control flow depends on floating
comparisons (pivoting): SAFETY ONLY.  cppvc extracts the integer skeleton with every floating branch condition replaced by an
arbitrary boolean (both branches verified), so the obligations - every subscript of the matrix and of the heap arrays in bounds,
no unsigned wrap-around, no signed overflow, no division by zero in index arithmetic - hold for EVERY input matrix of the stated
shape.  Nothing is said about the floating values (accuracy is the bounded stand-in of contracts/C04.py)."""
from __future__ import annotations

import ast

from contracts import C04_native as N
from vf import cppvc, pyvc

NMAX = 3037000499      # floor(sqrt(2^63 - 1)): n * n fits the size_t / int64 range with room

PFAFFIAN = dict(
    params=[("matrix_in_rows", "Int"), ("matrix_in_cols", "Int")], returns="Int",
    requires=["matrix_in_rows == matrix_in_cols", "0 <= matrix_in_cols", f"matrix_in_cols <= {NMAX}"],
    ensures=[],
    loops={
        "0": dict(invariant=["0 <= k", "k <= n", "k % 2 == 0", "n % 2 == 0", "n == matrix_in_cols", "n == matrix_in_rows", "n >= 2"]),
        "0.0": dict(invariant=["k + 2 <= i", "i <= n", "k + 1 <= kp", "kp < n"]),
        "0.1": dict(invariant=["0 <= i", "i <= n"]),
        "0.2": dict(invariant=["0 <= i", "i <= n"]),
        "0.3": dict(invariant=["0 <= i", "i <= tau_len"]),
        "0.4": dict(invariant=["k + 2 <= i", "i <= n"]),
        "0.4.0": dict(invariant=["k + 2 <= j", "j <= n"]),
    },
    ghost={
        # (row + 1) * n <= n * n for every row < n
        "loop[0.0].start": ["use('mul_le', i + 1, n, n, n)", "use('mul_le', kp + 1, n, n, n)"],
        "loop[0.1].before": ["use('mul_le', k + 2, n, n, n)", "use('mul_le', kp + 1, n, n, n)"],
        "loop[0.2].start": ["use('mul_le', i + 1, n, n, n)"],
        "loop[0.3].before": ["use('mul_le', k + 1, n, n, n)"],
        "loop[0.4.0].start": ["use('mul_le', i + 1, n, n, n)", "use('mul_le', j + 1, n, n, n)"],
    },
    ghost_before={"assert 0 <= __u64(__u64(__u64(k * n) + k) + __u64(1))": ["use('mul_le', k + 1, n, n, n)"]},
)


def check_pfaffian(run):
    fid = "src/pfaffian.cpp:pfaffian_cpp<double>/memory-safety"
    try:
        docs = cppvc.clang_ast("src/pfaffian.cpp", "pfaffian_cpp")
        node = cppvc.find_function(docs, "pfaffian_cpp", "double (")
        py, tr = cppvc.translate(node, {"float_branches_nondet": True})
    except (pyvc.Unsupported, StopIteration) as e:
        run.undecided_ob(f"{fid}/extraction", "cppvc", "clang-ast", f"{type(e).__name__}: {e}")
        return
    py.args.args = [ast.arg(arg="matrix_in_rows"), ast.arg(arg="matrix_in_cols")]
    ast.fix_missing_locations(py)
    text = ast.unparse(py)
    run.function(fid, text, dropped_float_statements=tr.dropped, bounds_obligations_from_dropped=tr.bounds,
                 floating_branches_made_nondeterministic=getattr(tr, "nondet_branches", 0))
    N.report(run, N.verify_translated(run, fid, py, text, PFAFFIAN, {}))


def check(run):
    check_pfaffian(run)
    run.assume("safety-only obligations of the floating kernels: every floating comparison is replaced by an arbitrary boolean "
               "and both branches are verified; floating VALUES (NaN, overflow to inf, accuracy) are outside these obligations")
