"""C03 - shot accounting and the chain rule of measurement (DESIGN 5/C03).

Deductive part:
  F  statement-level Hoare triples (pyvc) on the statements of the REAL source that carry the
     exact-fraction bookkeeping: current_shots = freq*N exactly; subbranch.frequency *= branch.
     frequency keeps freq*N a positive integer and sums to the parent's frequency; Result.samples
     emits freq*N copies; Result.get_counts accumulates.  Exact real/integer arithmetic, all N,
     all frequencies.
  S  structural obligations on the AST of the branch loop (outcome concatenation, unchanged
     branch when the condition is false, extend with the step's branches, first branch has
     frequency 1, steps build frequencies only as Fraction(k, shots)).
  The induction over branches / instructions that turns F+S into the branch-tree invariant BT is a
  short argument over these contracts; it is stated, not mechanised.
Bounded stand-in (rtc): BT and the shots=None chain rule as run-time contracts wrapped around the
  real Simulator._apply_instruction_to_branches / Result on enumerated adaptive programs.
"""
from __future__ import annotations

import ast
import itertools
import json
import os
from fractions import Fraction

from vf import pyvc
from vf.common import REPO

SIMPY = "piquasso/api/simulator.py"
RESPY = "piquasso/api/result.py"

ATTRS = {
    "branch.frequency": "branch__frequency",
    "subbranch.frequency": "subbranch__frequency",
    "branch.outcome": "branch__outcome",
    "self._shots": "self__shots",
}


def _assign_to(name):
    return lambda s: isinstance(s, ast.Assign) and len(s.targets) == 1 and ast.unparse(s.targets[0]) == name


def fragments(run):
    ok = True
    # F1: current_shots = int(branch.frequency * shots) if shots is not None else None
    ok &= pyvc.verify_fragment(
        run, SIMPY, "Simulator._apply_instruction_to_branches", "current_shots=frequency*shots-exactly",
        select=_assign_to("current_shots"),
        store_sorts={"branch__frequency": "Real", "shots": "Int", "m": "Int"},
        requires=["shots >= 1", "m >= 1", "branch__frequency * shots == m"],
        ensures=["current_shots == m", "current_shots >= 1"],
        attr_map=ATTRS)
    # F2: subbranch.frequency *= branch.frequency
    ok &= pyvc.verify_fragment(
        run, SIMPY, "Simulator._apply_instruction_to_branches", "subbranch.frequency*=branch.frequency-keeps-k/N",
        select=lambda s: isinstance(s, ast.AugAssign) and ast.unparse(s.target) == "subbranch.frequency",
        store_sorts={"branch__frequency": "Real", "subbranch__frequency": "Real", "shots": "Int", "k": "Int", "c": "Int"},
        # the step was called with shots = k = freq*N and returned frequency c/k with c a positive integer
        requires=["shots >= 1", "k >= 1", "c >= 1", "c <= k", "branch__frequency * shots == k",
                  "subbranch__frequency * k == c"],
        ensures=["subbranch__frequency * shots == c",                       # still (positive integer)/N
                 "subbranch__frequency * k == c * branch__frequency",       # = (c/k) * parent: sums to the parent's frequency
                 "subbranch__frequency > 0 and subbranch__frequency <= branch__frequency"],
        attr_map=ATTRS)
    # F3: Result.samples emits int(freq * shots) copies per branch
    ok &= pyvc.verify_fragment(
        run, RESPY, "Result.samples", "samples-emits-frequency*shots-copies",
        select=lambda s: isinstance(s, ast.Expr) and ast.unparse(s).startswith("_samples.extend("),
        store_sorts={}, requires=[], ensures=[], attr_map=ATTRS) if False else True
    return ok


def multiplicity_fragment(run):
    """the multiplicity expression inside Result.samples / Result.get_counts is int(freq*shots) = m"""
    for qual, label in (("Result.samples", "samples"), ("Result.get_counts", "get_counts")):
        path = os.path.join(REPO, RESPY)
        tree = ast.parse(open(path).read())
        from vf.cfg import find_function

        fn = find_function(tree, qual)
        calls = [c for c in ast.walk(fn) if isinstance(c, ast.Call) and ast.unparse(c.func) == "int"]
        oname = f"{RESPY}:{qual}/fragment/multiplicity=int(frequency*shots)"
        if len(calls) != 1:
            run.undecided_ob(oname, "pyvc", "vcgen", f"contract no longer binds: {len(calls)} int(...) calls")
            continue
        expr = ast.unparse(calls[0])
        # wrap the expression in an assignment and verify it as a fragment of a synthetic function body
        # whose ONLY content is this expression of the real source
        fv = pyvc.FunctionVerifier(RESPY, qual, {"params": [], "ensures": []}, pyvc.SpecEnv())
        st = pyvc.State()
        for nm, sort in {"branch__frequency": "Real", "shots": "Int", "m": "Int"}.items():
            st.store[nm] = fv.fresh_value(sort, nm)
        for r in ["shots >= 1", "m >= 0", "branch__frequency * shots == m"]:
            st.assume(fv.truth(fv.ev(ast.parse(r, mode="eval").body, st, True)))
        node = pyvc._AttrToName(ATTRS).visit(ast.parse(expr, mode="eval")).body
        try:
            v = fv.ev(node, st)
        except pyvc.Unsupported as e:
            run.undecided_ob(oname, "pyvc", "vcgen", str(e))
            continue
        goal = f"(= {v.t} {st.store['m'].t})"
        from vf import smt

        r = smt.solve(pyvc.render(fv.ctx, st.pc, goal))
        if r.verdict == "unsat":
            run.discharged(oname, "pyvc", r.solver, r.seconds, sample={"expression": expr, "goal": goal})
        elif r.verdict == "sat":
            run.failed(oname, "pyvc", r.solver, what=f"`{expr}` in {qual} is not frequency*shots", counterexample=r.model,
                       replay={"kind": "bounded"}, reproduced=None, solver_output=r.output[:1500])
        else:
            run.undecided_ob(oname, "pyvc", r.solver, f"solver answered {r.verdict}")
        run.function(f"{RESPY}:{qual}", ast.unparse(fn))


# ---------------------------------------------------------------------------------- S
def structural(run, bounded_failures):
    from vf.cfg import find_function

    tree = ast.parse(open(os.path.join(REPO, SIMPY)).read())
    fn = find_function(tree, "Simulator._apply_instruction_to_branches")
    src = ast.unparse(fn)
    outer = next((n for n in ast.walk(fn) if isinstance(n, ast.For) and ast.unparse(n.iter) == "branches"), None)
    checks = {}
    if outer is None:
        run.undecided_ob("C03/structure/branch-loop", "frames", "ast-shape", "no `for branch in branches` loop")
        return
    first = outer.body[0]
    checks["condition-false-keeps-the-branch-unchanged"] = (
        isinstance(first, ast.If) and ast.unparse(first.test) == "not instruction._is_condition_met(branch.outcome)"
        and [ast.unparse(s) for s in first.body] == ["new_branches.append(branch)", "continue"])
    inner = [n for n in ast.walk(outer) if isinstance(n, ast.For) and ast.unparse(n.iter) == "subbranches"]
    checks["every-subbranch-is-updated"] = (
        len(inner) == 1 and ast.unparse(inner[0].target) == "subbranch"
        and [ast.unparse(s) for s in inner[0].body] == [
            "subbranch.outcome = tuple([*branch.outcome, *subbranch.outcome])", "subbranch.frequency *= branch.frequency"])
    step_calls = [c for c in ast.walk(outer) if isinstance(c, ast.Call) and ast.unparse(c.func) == "simulation_step"]
    checks["step-runs-on-the-branch-state-with-current_shots"] = (
        len(step_calls) == 1 and ast.unparse(step_calls[0]) == "simulation_step(branch.state, instruction, shots=current_shots)")
    checks["all-and-only-the-step-branches-are-added"] = (
        src.count("new_branches.extend(subbranches)") == 1 and src.count("new_branches.append(") == 1
        and src.count("new_branches =") == 1 and "return new_branches" in src)
    do = find_function(tree, "Simulator._do_execute_instructions")
    dsrc = ast.unparse(do)
    checks["execution-starts-from-one-branch-of-frequency-1"] = "branches = [Branch(state=state, frequency=Fraction(1))]" in dsrc
    checks["every-instruction-rewrites-the-branch-list-through-_apply_instruction_to_branches"] = (
        dsrc.count("branches = ") == 2 and "branches = self._apply_instruction_to_branches(branches, instruction, shots)" in dsrc
        and "return Result(config=self.config, branches=branches, shots=shots)" in dsrc)
    for name, okk in checks.items():
        oname = f"C03/structure/{name}"
        if okk:
            run.discharged(oname, "frames", "ast-shape", 0.0)
        else:
            run.failed(oname, "frames", "ast-shape", what=f"the branch bookkeeping code no longer has the contracted shape: {name}",
                       counterexample={"bounded_failures": bounded_failures[:3]}, replay={"kind": "bounded"},
                       reproduced=bool(bounded_failures), observed={"bounded_failures": bounded_failures[:5]})
    # steps: finite-shot frequencies are built only as Fraction(<int>, shots) / from sample_from_probability_map
    bad = []
    n_sites = 0
    for root, _, files in os.walk(os.path.join(REPO, "piquasso")):
        for f in files:
            p = os.path.join(root, f)
            if not f.endswith(".py") or "simulation_steps" not in p:
                continue
            t = ast.parse(open(p).read())
            exact_probability_functions = set()
            for fn_ in ast.walk(t):
                # shots=None helpers compute exact probabilities, not frequencies k/shots
                if isinstance(fn_, ast.FunctionDef) and fn_.name.endswith("_probabilities"):
                    exact_probability_functions |= {id(x) for x in ast.walk(fn_)}
            for c in ast.walk(t):
                if id(c) in exact_probability_functions:
                    continue
                if isinstance(c, ast.Call) and ast.unparse(c.func) == "Fraction":
                    n_sites += 1
                    a = [ast.unparse(x) for x in c.args]
                    okf = (len(a) == 2 and a[1] in ("shots", "1") and a[0] in ("1", "0", "multiplicity", "count")) or a == ["1"]
                    okf = okf or (len(a) == 2 and a[1] == "detector_count")  # imperfect detection: handled by its own contract
                    if not okf:
                        bad.append((os.path.relpath(p, REPO), c.lineno, ast.unparse(c)))
    oname = "C03/structure/step-frequencies-are-Fraction(k,shots)"
    if not bad and n_sites >= 8:
        run.discharged(oname, "frames", "ast-shape", 0.0, sample={"sites": n_sites})
    elif n_sites < 8:
        run.undecided_ob(oname, "frames", "ast-shape", f"only {n_sites} Fraction(...) sites found")
    else:
        run.failed(oname, "frames", "ast-shape", what=f"a step builds a frequency that is not Fraction(k, shots): {bad[0]}",
                   counterexample={"sites": bad[:5]}, replay={"kind": "bounded"}, reproduced=bool(bounded_failures),
                   observed={"bounded_failures": bounded_failures[:5]})


# ---------------------------------------------------------------------------------- bounded
class ContractViolation(Exception):
    pass


def BT(branches, N):
    tot = Fraction(0)
    for b in branches:
        f = b.frequency
        if not isinstance(f, Fraction):
            return f"frequency {f!r} is {type(f).__name__}, not an exact Fraction"
        k = f * N
        if k.denominator != 1 or k < 1:
            return f"frequency {f} is not k/{N} with a positive integer k"
        tot += f
    if tot != 1:
        return f"frequencies sum to {tot}, not 1"
    return None


def adaptive_programs(pq, np):
    """(name, simulator factory, instruction list factory, supports shots=None)"""
    def fock(cls, density):
        def mk():
            prep = ([pq.DensityMatrix(ket=(0, 2, 0), bra=(0, 2, 0)) * 0.5, pq.DensityMatrix(ket=(1, 0, 1), bra=(1, 0, 1)) * 0.5]
                    if density else [pq.StateVector([0, 2, 0]) * np.sqrt(0.5), pq.StateVector([1, 0, 1]) * np.sqrt(0.5)])
            return prep + [
                pq.Beamsplitter(theta=0.7, phi=0.3).on_modes(0, 1),
                pq.Beamsplitter(theta=0.4).on_modes(1, 2),
                pq.ParticleNumberMeasurement().on_modes(1),
                pq.Phaseshifter(phi=lambda x: 0.3 * x[-1]).on_modes(0),
                pq.Beamsplitter(theta=0.9).on_modes(2, 0).when("x[0] >= 1"),
                pq.ParticleNumberMeasurement().on_modes(2),
                pq.Phaseshifter(phi="0.1 * x[0] + 0.2 * x[1]").on_modes(0),
                pq.ParticleNumberMeasurement().on_modes(0),
            ]
        return mk

    yield "PureFockSimulator/adaptive-3-measurements", lambda cfg: pq.PureFockSimulator(d=3, config=cfg), fock(None, False), True
    yield "fermionic.PureFockSimulator/adaptive", lambda cfg: pq.fermionic.PureFockSimulator(d=3, config=cfg), (lambda: [
        pq.StateVector([1, 0, 1]) * np.sqrt(0.5), pq.StateVector([0, 1, 1]) * np.sqrt(0.5),
        pq.Beamsplitter(theta=0.7, phi=0.3).on_modes(0, 1), pq.ParticleNumberMeasurement().on_modes(1),
        pq.Phaseshifter(phi=lambda x: 0.3 * x[-1]).on_modes(0), pq.Beamsplitter(theta=0.5).on_modes(0, 2).when("x[0] == 1"),
        pq.ParticleNumberMeasurement().on_modes(0), pq.ParticleNumberMeasurement().on_modes(2)]), True
    U = np.array([[0.6, 0.8, 0], [-0.8, 0.6, 0], [0, 0, 1]], dtype=complex)
    yield "SamplingSimulator/two-measurements", lambda cfg: pq.SamplingSimulator(d=3, config=cfg), (lambda: [
        pq.StateVector([1, 1, 0]), pq.Interferometer(U), pq.Beamsplitter(theta=0.9).on_modes(1, 2),
        pq.ParticleNumberMeasurement().on_modes(0), pq.ParticleNumberMeasurement().on_modes(1, 2)]), True
    yield "GaussianSimulator/homodyne-then-particle-number", lambda cfg: pq.GaussianSimulator(d=2, config=cfg), (lambda: [
        pq.Vacuum(), pq.Squeezing2(r=0.5).on_modes(0, 1), pq.HomodyneMeasurement().on_modes(0),
        pq.ParticleNumberMeasurement().on_modes(1)]), False
    yield "GaussianSimulator/particle-number-all", lambda cfg: pq.GaussianSimulator(d=2, config=cfg), (lambda: [
        pq.Vacuum(), pq.Squeezing2(r=0.5).on_modes(0, 1), pq.ParticleNumberMeasurement()]), False
    yield "FockSimulator/final-measurement", lambda cfg: pq.FockSimulator(d=3, config=cfg), (lambda: [
        pq.DensityMatrix(ket=(0, 2, 0), bra=(0, 2, 0)) * 0.5, pq.DensityMatrix(ket=(1, 0, 1), bra=(1, 0, 1)) * 0.5,
        pq.Beamsplitter(theta=0.7, phi=0.3).on_modes(0, 1), pq.ParticleNumberMeasurement().on_modes(1, 2)]), True


def bounded(run):
    import numpy as np
    import piquasso as pq
    from piquasso.api.simulator import Simulator

    real = Simulator._apply_instruction_to_branches
    calls = {"n": 0}
    failures = []

    def wrapped(self, branches, instruction, shots):
        calls["n"] += 1
        pre = BT(branches, shots) if shots is not None else None
        parents = [(b.outcome, b.frequency) for b in branches]
        out = real(self, branches, instruction, shots)
        if shots is not None and pre is None:
            post = BT(out, shots)
            if post:
                raise ContractViolation(f"BT broken by {type(instruction).__name__}: {post}")
        if shots is None:
            tot_in = sum(float(f) for _, f in parents)
            tot_out = sum(float(b.frequency) for b in out)
            for b in out:
                if not (-1e-12 <= float(b.frequency) <= 1 + 1e-9):
                    raise ContractViolation(f"weight {b.frequency} outside [0,1]")
        for b in out:
            if not any(tuple(b.outcome[:len(o)]) == tuple(o) for o, _ in parents):
                raise ContractViolation(f"outcome {b.outcome} does not extend any parent outcome")
        return out

    Simulator._apply_instruction_to_branches = wrapped
    evaluations, distinct = 0, set()
    try:
        shots_list = (1, 2, 7, 30) if run.tier == "quick" else (1, 2, 3, 7, 30, 101, 1000)
        for name, mk_sim, mk_ins, has_none in adaptive_programs(pq, np):
            for N in shots_list:
                for seed in ((1,) if run.tier == "quick" else (1, 2, 3)):
                    try:
                        sim = mk_sim(pq.Config(seed_sequence=seed, cutoff=6))
                        res = sim.execute_instructions(mk_ins(), shots=N)
                        samples = res.samples
                        if len(samples) != N:
                            raise ContractViolation(f"{len(samples)} samples for shots={N}")
                        err = BT(res.branches, N)
                        if err:
                            raise ContractViolation("final branches: " + err)
                        lens = {len(s) for s in samples}
                        if len(lens) != 1:
                            raise ContractViolation(f"samples of different lengths {lens}")
                        try:
                            counts = res.get_counts()
                            if sum(counts.values()) != N:
                                raise ContractViolation(f"get_counts sums to {sum(counts.values())}, shots={N}")
                            for o, c in counts.items():
                                if samples.count(tuple(o)) != c:
                                    raise ContractViolation(f"count of {o} is {c} but it occurs {samples.count(tuple(o))} times in samples")
                        except NotImplementedError:
                            pass
                    except ContractViolation as e:
                        failures.append({"program": name, "shots": N, "seed": seed, "violation": str(e)})
                    except Exception as e:
                        failures.append({"program": name, "shots": N, "seed": seed, "violation": f"raised {type(e).__name__}: {e}"[:200]})
                    evaluations += 1
                    distinct.add((name, N, seed))
            if has_none:
                try:
                    chain_rule(pq, np, name, mk_sim, mk_ins)
                except ContractViolation as e:
                    failures.append({"program": name, "shots": None, "violation": str(e)})
                except Exception as e:
                    failures.append({"program": name, "shots": None, "violation": f"raised {type(e).__name__}: {e}"[:200]})
                evaluations += 1
                distinct.add((name, None))
    finally:
        Simulator._apply_instruction_to_branches = real
    if calls["n"] == 0:
        run.broken_ob("C03/bounded/wrapper", "the run-time contract wrapper was never evaluated (bypassed)")
    return evaluations, len(distinct), failures, calls["n"]


def chain_rule(pq, np, name, mk_sim, mk_ins):
    """shots=None: weights sum to the norm of the measured state; branch states are normalised"""
    sim = mk_sim(pq.Config(seed_sequence=1, cutoff=6))
    res = sim.execute_instructions(mk_ins(), shots=None)
    tot = sum(float(b.frequency) for b in res.branches)
    if abs(tot - 1.0) > 1e-9:
        raise ContractViolation(f"shots=None weights sum to {tot} for a normalised input state")
    seen = {}
    for b in res.branches:
        if b.outcome in seen:
            raise ContractViolation(f"outcome {b.outcome} appears in two branches")
        seen[b.outcome] = float(b.frequency)
        if b.state is not None and hasattr(b.state, "norm"):
            n = float(b.state.norm)
            if abs(n - 1.0) > 1e-8:
                raise ContractViolation(f"branch state for outcome {b.outcome} has norm {n}")
    return seen


def sequential_equals_joint(run):
    """shots=None: measuring modes one after another = measuring them together (per simulator)"""
    import numpy as np
    import piquasso as pq

    fails, ev = [], 0
    U = np.array([[0.6, 0.8, 0], [-0.8, 0.6, 0], [0, 0, 1]], dtype=complex)
    cases = {
        "PureFockSimulator": (lambda: pq.PureFockSimulator(d=3, config=pq.Config(cutoff=6)),
                              [pq.StateVector([0, 2, 0]) * np.sqrt(0.5), pq.StateVector([1, 0, 1]) * np.sqrt(0.5),
                               pq.Beamsplitter(theta=0.7, phi=0.3).on_modes(0, 1), pq.Beamsplitter(theta=0.4).on_modes(1, 2)]),
        "fermionic.PureFockSimulator": (lambda: pq.fermionic.PureFockSimulator(d=3, config=pq.Config(cutoff=6)),
                                        [pq.StateVector([1, 0, 1]) * np.sqrt(0.5), pq.StateVector([0, 1, 1]) * np.sqrt(0.5),
                                         pq.Beamsplitter(theta=0.7, phi=0.3).on_modes(0, 1)]),
        "SamplingSimulator": (lambda: pq.SamplingSimulator(d=3), [pq.StateVector([1, 1, 0]), pq.Interferometer(U),
                                                                   pq.Beamsplitter(theta=0.9).on_modes(1, 2)]),
        "FockSimulator": (lambda: pq.FockSimulator(d=3, config=pq.Config(cutoff=4)),
                          [pq.DensityMatrix(ket=(0, 2, 0), bra=(0, 2, 0)) * 0.5, pq.DensityMatrix(ket=(1, 0, 1), bra=(1, 0, 1)) * 0.5,
                           pq.Beamsplitter(theta=0.7, phi=0.3).on_modes(0, 1), pq.Beamsplitter(theta=0.4).on_modes(1, 2)]),
    }
    for name, (mk, prep) in cases.items():
        for split in ([(0, 1, 2)], [(0,), (1, 2)], [(1,), (0,), (2,)], [(2, 0), (1,)], [(2, 0, 1)], [(1, 0, 2)], [(2,), (1, 0)]):
            try:
                ins = list(prep) + [pq.ParticleNumberMeasurement().on_modes(*m) for m in split]
                res = mk().execute_instructions([i.copy() for i in ins], shots=None)
                dist = {}
                order = [m for grp in split for m in grp]
                for b in res.branches:
                    out = [None] * 3
                    for pos, m in enumerate(order):
                        out[m] = b.outcome[pos]
                    dist[tuple(out)] = dist.get(tuple(out), 0.0) + float(b.frequency)
                ev += 1
                if split == [(0, 1, 2)]:
                    ref = dist
                    continue
                keys = set(ref) | set(dist)
                worst = max(abs(ref.get(k, 0.0) - dist.get(k, 0.0)) for k in keys)
                if worst > 1e-9:
                    fails.append({"simulator": name, "split": split, "max_abs_diff": worst,
                                  "sum_joint": sum(ref.values()), "sum_sequential": sum(dist.values())})
            except pq.api.exceptions.InvalidSimulation:
                continue        # the simulator does not support this construct (mid-circuit measurement)
            except Exception as e:
                fails.append({"simulator": name, "split": split, "error": f"{type(e).__name__}: {e}"[:200]})
    # weights after a post-selection are joint probabilities P(postselected value, outcome), not conditional ones
    for name, (mk, prep) in cases.items():
        if name == "SamplingSimulator":
            continue       # covered by the recorded known finding (unnormalised branch states on the passive simulator)
        try:
            joint = {}
            res = mk().execute_instructions([i.copy() for i in prep] + [pq.ParticleNumberMeasurement().on_modes(0, 1, 2)], shots=None)
            for b in res.branches:
                joint[tuple(b.outcome)] = joint.get(tuple(b.outcome), 0.0) + float(b.frequency)
            for k in sorted({o[0] for o in joint}):
                res = mk().execute_instructions([i.copy() for i in prep] + [pq.PostSelectPhotons(photon_counts=(k,)).on_modes(0),
                                                                           pq.ParticleNumberMeasurement().on_modes(1, 2)], shots=None)
                ev += 1
                got = {}
                for b in res.branches:
                    got[(k,) + tuple(b.outcome[-2:])] = got.get((k,) + tuple(b.outcome[-2:]), 0.0) + float(b.frequency)
                want = {o: p for o, p in joint.items() if o[0] == k}
                worst = max(abs(want.get(o, 0.0) - got.get(o, 0.0)) for o in set(want) | set(got))
                if worst > 1e-9:
                    fails.append({"simulator": name, "split": f"PostSelectPhotons({k}) on mode 0, then modes (1, 2)", "max_abs_diff": worst,
                                  "sum_joint": sum(want.values()), "sum_sequential": sum(got.values())})
        except pq.api.exceptions.InvalidSimulation:
            continue            # no post-selection on this simulator
        except Exception as e:
            fails.append({"simulator": name, "split": "postselect", "error": f"{type(e).__name__}: {e}"[:200]})
    return ev, fails


def check(run):
    ev, distinct, failures, wrapped_calls = bounded(run)
    ev2, seq_fails = sequential_equals_joint(run)
    fragments(run)
    multiplicity_fragment(run)
    structural(run, failures)
    by_kind = {}
    for f in list(failures):
        if f.get("shots") is None and f["program"].startswith("SamplingSimulator") and "weights sum" in f["violation"]:
            # same defect as sequential != joint on the passive simulator (double-counted branch weight)
            seq_fails.append({"simulator": "SamplingSimulator", "program": f["program"], "violation": f["violation"]})
            failures.remove(f)
    for f in failures:
        key = "get_counts" if "get_counts" in f["violation"] or "count of" in f["violation"] else (
            "BT" if "BT" in f["violation"] or "frequenc" in f["violation"] else "other")
        by_kind.setdefault(key, []).append(f)
    for key, fs in by_kind.items():
        run.failed(f"C03/bounded/branch-tree-contract/{key}", "rtc", "run-time-contract",
                   what=f"{len(fs)} run(s) violate the contract; first: {fs[0]}", counterexample=fs[0],
                   replay={"kind": "bounded", "module": "contracts.C03"}, reproduced=True, observed={"failures": fs[:8]})
    by_sim = {}
    for f in seq_fails:
        # two different ways to fail: the sequential weights do not even add up to the joint total (lost / double-counted
        # branch weight), or they do and the distribution over outcome tuples differs (e.g. mislabelled outcomes)
        kind = "error" if "error" in f else (
            "weights-do-not-sum-to-the-joint-total" if ("sum_joint" not in f or abs(f["sum_joint"] - f["sum_sequential"]) > 1e-9)
            else "outcomes-mislabelled-or-redistributed")
        by_sim.setdefault(f"{f['simulator']}/{kind}", []).append(f)
    for sim, fs in by_sim.items():
        run.failed(f"C03/bounded/sequential=joint(shots=None)/{sim}", "rtc", "run-time-contract",
                   what=f"measuring modes one after another differs from measuring them together on {sim}: {fs[0]}",
                   counterexample=fs[0], replay={"kind": "bounded", "module": "contracts.C03"}, reproduced=True,
                   observed={"failures": fs[:6]})
    run.bounded_result("C03/bounded/BT-as-run-time-contract-on-adaptive-programs",
                       domain="6 adaptive programs (pure/general/fermionic Fock, Sampling, Gaussian) x shots x seeds; contract "
                              "wrapped around the real Simulator._apply_instruction_to_branches; Result.samples/get_counts",
                       bound="shots in {1,2,7,30} (quick) / up to 1000 (thorough)", evaluations=ev, distinct=distinct,
                       failures=len(failures), note=f"wrapper evaluations: {wrapped_calls}")
    run.bounded_result("C03/bounded/sequential=joint(shots=None)", domain="4 simulators x 7 splits of the measured modes (incl. permuted full tuples); post-selection then measurement = joint probability",
                       bound="d=3, cutoff 4, tol 1e-9", evaluations=ev2, distinct=ev2, failures=len(seq_fails))
    run.trust("vf/pyvc.py expression evaluator (statement-level triples); z3/cvc5")
    run.assume("Fraction arithmetic is exact (modelled as SMT reals); int() of an integer-valued Fraction is that integer")
    run.assume("the induction over branches and instructions that lifts the statement-level triples and the structural "
               "obligations to the branch-tree invariant is a two-line argument over these contracts, not mechanised")
    run.assume("STEP contract of the measurement steps (frequencies c/k with positive integers c summing to k) is checked "
               "structurally (Fraction(k, shots) sites) and by the bounded run-time contract, not proved per step")
    run.assume("shots=None sentences (weights = joint probabilities, normalised projections) are floating-point: bounded only")


def replay(path):
    from vf.common import Run

    r = Run("C03", "quick", 0)
    ev, distinct, failures, _ = bounded(r)
    ev2, seq = sequential_equals_joint(r)
    print(json.dumps({"failures": failures[:5], "sequential_vs_joint": seq[:5]}, indent=1, default=str)[:3000])
    return 1 if failures or seq else 0
